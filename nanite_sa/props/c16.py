"""C16 — rating containers round-trip and only ever grow."""
from __future__ import annotations

import ast
import re

from .. import facts, fitrules
from ..astutil import (call_name, calls_in, const_str, dotted, kwarg, literal,
                       norm, walk_no_nested)
from ..cfg import CFG
from ..guards import atoms, conditions_at
from ..loader import AnchorError, Undecided

EXPLANATION = (
    "Writer/reader agreement and write discipline of rate/io.py, for every "
    "sequence of saves and every crash point inside a save: (R1) the "
    "datasets created for a new entry equal the datasets the loader copies "
    "back, each under its own column name; attributes the readers index "
    "are attributes the writer sets; for every key of FP_DEFAULT and "
    "FP_RESULTS the writer's encoding branch and the loader's decoding "
    "branch form an inverse pair (lookup tables of encoders included); the "
    "'fit ' attribute prefix agrees; user name, rating and comment are "
    "written from the arguments on every completed save (the store "
    "dominates the normal exit), so re-saving updates them; (R2) "
    "append-only: every HDF5 mutation targets the new data/<hash> dataset "
    "(guarded by absence), the new analysis group (guarded by absence) or "
    "the user/version attributes; an existing entry receives only those; "
    "(R3) refusal: the 'different fit' raise is reached before any mutation "
    "of an existing entry, and its comparison uses no absolute tolerance "
    "(forces are ~1e-9); (R4) crash window: for each reader, the items "
    "whose absence makes it skip an entry are written after everything it "
    "then requires, so every prefix of the writer's creation order is "
    "either skipped or complete; (R5) the already-rated lookup uses the "
    "writer's group name.")
NOT_DECIDED = [
    "byte equality of the columns after the round trip (h5py/HDF5 filters)",
    "value-dependent pairs: ','.join/split(',') is not inverse for an empty "
    "step list",
]

INVERSE = {
    "dumps": "loads", "json.dumps": "json.loads", "join": "split",
    "str": "floatsplit", "identity": "identity",
}


# module-level dispatch tables {name: {key: value expression}} of rate.io
_DISPATCH: dict = {}


def _load_dispatch(mod):
    _DISPATCH.clear()
    for name, vals in mod.assigns.items():
        v = vals[-1]
        if len(vals) == 1 and isinstance(v, ast.Dict) and v.keys and all(
                k is not None and const_str(k) is not None for k in v.keys):
            _DISPATCH[name] = {const_str(k): x
                               for k, x in zip(v.keys, v.values)}


def _key_test(test, key, var="key"):
    """three-valued evaluation of a branch test for a fixed settings key"""
    if isinstance(test, ast.Compare) and len(test.ops) == 1 and \
            norm(test.left) == var and isinstance(
                test.ops[0], (ast.In, ast.NotIn)) and isinstance(
                test.comparators[0], ast.Name) and \
            test.comparators[0].id in _DISPATCH:
        r = key in _DISPATCH[test.comparators[0].id]
        return r if isinstance(test.ops[0], ast.In) else not r
    if isinstance(test, ast.BoolOp):
        vals = [_key_test(v, key, var) for v in test.values]
        if isinstance(test.op, ast.And):
            if any(v is False for v in vals):
                return False
            return True if all(v is True for v in vals) else None
        if any(v is True for v in vals):
            return True
        return False if all(v is False for v in vals) else None
    if isinstance(test, ast.Call) and isinstance(test.func, ast.Attribute) \
            and norm(test.func.value) == var and \
            test.func.attr in ("startswith", "endswith") and test.args:
        p = const_str(test.args[0])
        if p is not None:
            return getattr(key, test.func.attr)(p)
    if isinstance(test, ast.Compare) and len(test.ops) == 1 and \
            norm(test.left) == var:
        lit = literal(test.comparators[0])
        if isinstance(test.ops[0], ast.Eq) and isinstance(lit, str):
            return key == lit
        if isinstance(test.ops[0], ast.In) and isinstance(lit, (list, tuple)):
            return key in lit
    return None


def _beta(v):
    """`(lambda x: E)(a)` -> E[x := a] (one positional parameter)"""
    if isinstance(v, ast.Call) and isinstance(v.func, ast.Lambda) and len(
            v.func.args.args) == 1 and len(v.args) == 1 and not v.keywords:
        from ..astutil import clone
        par = v.func.args.args[0].arg
        body = clone(v.func.body)

        class _S(ast.NodeTransformer):
            def visit_Name(self, n):
                return clone(v.args[0]) if n.id == par else n
        return ast.fix_missing_locations(_S().visit(body))
    return v


def _chain(ifnode):
    out = []
    cur = ifnode
    while isinstance(cur, ast.If):
        out.append((cur.test, cur.body))
        if len(cur.orelse) == 1 and isinstance(cur.orelse[0], ast.If):
            cur = cur.orelse[0]
        else:
            if cur.orelse:
                out.append((None, cur.orelse))
            break
    return out


def _kind_of_value(body, valvar, writer, key=None, var="key"):
    """classify the transformation applied to `valvar` in a branch body"""
    for st in body:
        for n in ast.walk(st):
            if isinstance(n, ast.Assign) and norm(n.targets[0]) == valvar:
                v = n.value
                # TABLE[key](val) -> the table's function for this key
                if isinstance(v, ast.Call) and isinstance(
                        v.func, ast.Subscript) and isinstance(
                        v.func.value, ast.Name) and v.func.value.id in \
                        _DISPATCH and norm(v.func.slice) == var and \
                        key in _DISPATCH[v.func.value.id]:
                    v = _beta(ast.Call(func=_DISPATCH[v.func.value.id][key],
                                       args=v.args, keywords=v.keywords))
                t = norm(v)
                # formatting with a precision / general format keeps only
                # part of the digits
                specs = [norm(x.format_spec) for x in ast.walk(v)
                         if isinstance(x, ast.FormattedValue)
                         and x.format_spec is not None]
                if isinstance(v, ast.Call) and isinstance(
                        v.func, ast.Attribute) and v.func.attr == "format" \
                        and isinstance(v.func.value, ast.Constant) and \
                        re.search(r"\{[^}]*:[^}]+\}", str(v.func.value.value)):
                    specs.append(str(v.func.value.value))
                if isinstance(v, ast.BinOp) and isinstance(
                        v.op, ast.Mod) and isinstance(v.left, ast.Constant) \
                        and isinstance(v.left.value, str):
                    specs.append(v.left.value)
                if specs:
                    return f"formatted with {specs[0]!r} (digits are lost)"
                if writer and (isinstance(v, ast.JoinedStr) or (
                        isinstance(v, ast.Call) and isinstance(
                            v.func, ast.Attribute) and v.func.attr == "format"
                        and isinstance(v.func.value, ast.Constant)) or (
                        isinstance(v, ast.BinOp) and isinstance(
                            v.op, ast.Mod) and isinstance(
                            v.left, ast.Constant))):
                    # the values' own text, as str() of the sequence gives
                    return "str"
                if isinstance(v, ast.Call):
                    cn = call_name(v) or ""
                    if not cn and isinstance(v.func, ast.Attribute):
                        cn = "<expr>." + v.func.attr
                    if cn.endswith(".dumps") and cn != "json.dumps":
                        return "dumps"
                    if cn == "json.dumps":
                        return "json.dumps"
                    if cn == "json.loads":
                        return "json.loads"
                    if cn.endswith(".join"):
                        return "join"
                    if cn == "str":
                        return "str"
                    if cn.endswith(".split") and "strip" not in t:
                        return "split"
                if isinstance(v, ast.Name):
                    # val = parms after parms.loads(val)
                    for m in ast.walk(ast.Module(body=body,
                                                 type_ignores=[])):
                        if isinstance(m, ast.Call) and (call_name(m) or ""
                                                        ).endswith(".loads"):
                            return "loads"
                if "float(" in t:
                    return "floatsplit"
    return None


def _branch_kind(chain, key, valvar, var, writer):
    for test, body in chain:
        if test is None:
            k = _kind_of_value(body, valvar, writer, key, var)
            return k or "identity"
        v = _key_test(test, key, var)
        if v is None:
            raise Undecided(f"cannot evaluate branch test {norm(test)} for "
                            f"key {key}")
        if v:
            k = _kind_of_value(body, valvar, writer, key, var)
            if k is None:
                # multi-statement reader branch (float split)
                txt = " ".join(norm(s) for s in body)
                if "float(" in txt:
                    return "floatsplit"
                if ".loads(" in txt:
                    return "loads"
                raise Undecided(f"unrecognised transformation for key {key}")
            return k
    return "identity"


class Writer:
    def __init__(self, repo):
        self.mod = repo.mod("rate.io")
        self.fn = self.mod.func("save_hdf5")
        self.cfg = CFG(self.fn)
        # the `if idd in ana:` branch
        self.exists_if = None
        for n in walk_no_nested(self.fn, False):
            if isinstance(n, ast.If) and isinstance(n.test, ast.Compare) \
                    and isinstance(n.test.ops[0], ast.In) \
                    and any(isinstance(c, ast.Call) and isinstance(
                        c.func, ast.Attribute)
                        and c.func.attr == "create_group"
                        for s in n.orelse for c in ast.walk(s)):
                self.exists_if = n
        if self.exists_if is None:
            raise AnchorError("save_hdf5: cannot find the existing-entry "
                              "branch")
        self.outvar = None
        for s in self.exists_if.orelse:
            if isinstance(s, ast.Assign) and isinstance(s.value, ast.Call) \
                    and isinstance(s.value.func, ast.Attribute) \
                    and s.value.func.attr == "create_group":
                self.outvar = norm(s.targets[0])
                self.group_name = norm(s.value.args[0])
                self.group_parent = norm(s.value.func.value)
        if self.outvar is None:
            raise Undecided("save_hdf5: new group is not bound to a name")

    def creation_order(self):
        """ordered items the writer creates in a NEW entry:
        ('group',), ('attr', name|'fit *'), ('dataset', name)"""
        order = [("group", self.group_name)]

        def visit(stmts):
            for st in stmts:
                if isinstance(st, ast.For):
                    lst = literal(st.iter)
                    var = norm(st.target)
                    for s in ast.walk(st):
                        if isinstance(s, ast.Assign) and isinstance(
                                s.targets[0], ast.Subscript) and \
                                norm(s.targets[0].value) == \
                                f"{self.outvar}.attrs":
                            order.append(("attr", "fit *"))
                        if isinstance(s, ast.Call) and isinstance(
                                s.func, ast.Attribute) and s.func.attr == \
                                "create_dataset" and norm(s.func.value) == \
                                self.outvar and s.args and \
                                norm(s.args[0]) == var and isinstance(
                                    lst, (list, tuple)):
                            for x in lst:
                                order.append(("dataset", x))
                    continue
                if isinstance(st, (ast.If,)):
                    continue
                for n in ast.walk(st):
                    if isinstance(n, ast.Assign) and isinstance(
                            n.targets[0], ast.Subscript) and \
                            norm(n.targets[0].value) == \
                            f"{self.outvar}.attrs":
                        k = const_str(n.targets[0].slice)
                        order.append(("attr", k or norm(n.targets[0].slice)))
                    if isinstance(n, ast.Call) and isinstance(
                            n.func, ast.Attribute) and n.func.attr == \
                            "create_dataset" and norm(n.func.value) == \
                            self.outvar:
                        order.append(("dataset", const_str(n.args[0])))
        visit(self.exists_if.orelse)
        # the common tail after the if/else
        blk = getattr(self.exists_if, "_parent")
        body = blk.body
        idx = [i for i, s in enumerate(body) if s is self.exists_if][0]
        visit(body[idx + 1:])
        return order


def _reader_requirements(fn, grp_pred):
    """(skip_items, required_items) of a reader function for one entry"""
    skip, req = set(), set()
    for n in walk_no_nested(fn, False):
        if isinstance(n, ast.If) and any(isinstance(s, ast.Continue)
                                         for s in n.body):
            for a in atoms(n.test, True):
                nd = a.node
                if isinstance(nd, ast.Compare) and isinstance(
                        nd.ops[0], ast.In) and const_str(nd.left):
                    where_ = norm(nd.comparators[0])
                    kind = "attr" if where_.endswith("attrs") else "dataset"
                    # `x not in y` -> atom (x in y, False): skip if absent
                    if not a.pol:
                        skip.add((kind, const_str(nd.left)))
    return skip


def r1_tables_agree(ctx):
    W = Writer(ctx.repo)
    io = W.mod
    _load_dispatch(io)
    ld = io.func("load_hdf5")
    ctx.analysed(W.fn)
    ctx.analysed(ld)
    order = W.creation_order()
    w_datasets = [n for k, n in order if k == "dataset"]
    ctx.floor("datasets created per entry", len(w_datasets), 6)
    # writer: dataset name == column it is filled from
    for c in calls_in(W.fn):
        if isinstance(c.func, ast.Attribute) and c.func.attr == \
                "create_dataset" and norm(c.func.value) == W.outvar:
            name = const_str(c.args[0])
            d = kwarg(c, "data")
            src = norm(d) if d is not None else ""
            if name is None:
                v = norm(c.args[0])
                ctx.check(src in (f"indent[{v}][...]", f"indent[{v}]"), c,
                          f"dataset {v} <- {src}",
                          f"dataset {v} is filled from {src}")
                continue
            ctx.check(src in (f"indent['{name}'][...]", f"indent['{name}']"),
                      c, f"dataset '{name}' <- {src}",
                      f"dataset '{name}' is filled from {src}")
    # reader: columns copied back
    r_cols = {}
    for st in walk_no_nested(ld, False):
        if isinstance(st, ast.Assign) and isinstance(
                st.targets[0], ast.Subscript) and \
                norm(st.targets[0].value) == "indent":
            col = const_str(st.targets[0].slice)
            v = st.value
            src = None
            for n in ast.walk(v):
                if isinstance(n, ast.Subscript) and norm(n.value) == "h5gr":
                    src = const_str(n.slice)
            r_cols[col] = (src, st)
        if isinstance(st, ast.For):
            # folded form: for col in [...]: indent[col] = h5gr[col][...]
            lst = literal(st.iter)
            if isinstance(lst, (list, tuple)) and all(isinstance(x, str)
                                                      for x in lst):
                var = norm(st.target)
                for s in ast.walk(st):
                    if isinstance(s, ast.Assign) and isinstance(
                            s.targets[0], ast.Subscript) and \
                            norm(s.targets[0].value) == "indent" and \
                            norm(s.targets[0].slice) == var and \
                            f"h5gr[{var}]" in norm(s.value):
                        for x in lst:
                            r_cols[x] = (x, s)
    for col, (src, st) in r_cols.items():
        ctx.check(src == col, st, f"column '{col}' <- dataset '{src}'",
                  f"column '{col}' is restored from dataset '{src}'")
    ctx.check(set(r_cols) == set(w_datasets), ld,
              f"datasets written {sorted(w_datasets)} == columns restored",
              f"stored but not restored: "
              f"{sorted(set(w_datasets) - set(r_cols))}; restored but not "
              f"stored: {sorted(set(r_cols) - set(w_datasets))} - the "
              "loaded curve differs from the stored one in these columns")
    # attributes read ⊆ written
    w_attrs = {n for k, n in order if k == "attr"}
    for reader in (ld, io.func("hdf5_rated")):
        for n in walk_no_nested(reader, False):
            if isinstance(n, ast.Subscript) and isinstance(n.ctx, ast.Load) \
                    and norm(n.value).endswith("attrs") and \
                    const_str(n.slice) and "dset" not in norm(n.value):
                k = const_str(n.slice)
                ctx.check(k in w_attrs, n, f"reader uses attribute '{k}'",
                          f"{reader.name} reads attribute '{k}' which "
                          "save_hdf5 never writes")
    # data group: path attribute
    # fit-property encoding / decoding
    wloop = None
    for n in walk_no_nested(W.fn, False):
        if isinstance(n, ast.For) and "fit_properties" in norm(n.iter):
            wloop = n
    rloop = None
    sel_in_loop = False
    for n in walk_no_nested(ld, False):
        if isinstance(n, ast.For) and norm(n.iter) == "fkeys":
            rloop = n
    if rloop is None:
        # the selection of the 'fit ' attributes written as a test inside
        # the loop over all attributes
        for n in walk_no_nested(ld, False):
            if isinstance(n, ast.For) and len(n.body) == 1 and isinstance(
                    n.body[0], ast.If) and not n.body[0].orelse and \
                    "startswith('fit ')" in norm(n.body[0].test) and \
                    "attrs" in norm(n.iter):
                rloop = ast.For(target=n.target, iter=n.iter,
                                body=n.body[0].body, orelse=[],
                                type_comment=None)
                ast.copy_location(rloop, n)
                sel_in_loop = True
    if wloop is None or rloop is None:
        raise Undecided("cannot find the fit-properties loops of writer and "
                        "loader")
    wchain = rchain = None
    for s in wloop.body:
        if isinstance(s, ast.If):
            wchain = _chain(s)
    for s in rloop.body:
        if isinstance(s, ast.If):
            rchain = _chain(s)
    if wchain is None or rchain is None:
        raise Undecided("encoding/decoding branches not found")
    keys = list(facts.fp_default(ctx.repo)) + list(facts.fp_results(ctx.repo))

    def value_var(loop, chain, default="val"):
        """the variable the branches transform: the value finally stored,
        followed back through plain aliases to a name the branches assign"""
        assigned = {norm(n.targets[0]) for t_, body in chain for st in body
                    for n in ast.walk(st) if isinstance(n, ast.Assign)
                    and isinstance(n.targets[0], ast.Name)}
        if default in assigned:
            return default
        stores = [s for s in ast.walk(loop) if isinstance(s, ast.Assign)
                  and isinstance(s.targets[0], ast.Subscript)
                  and isinstance(s.value, ast.Name)]
        cur = stores[-1].value.id if stores else default
        for _ in range(4):
            if cur in assigned:
                return cur
            nxt = [s.value.id for s in ast.walk(loop)
                   if isinstance(s, ast.Assign)
                   and norm(s.targets[0]) == cur
                   and isinstance(s.value, ast.Name)]
            if not nxt:
                break
            cur = nxt[-1]
        return cur if cur in assigned else default
    wvar, rvar = value_var(wloop, wchain), value_var(rloop, rchain)
    wkey = norm(wloop.target) if isinstance(wloop.target, ast.Name) else "key"
    rkey = "key"
    for key in keys:
        wk = _branch_kind(wchain, key, wvar, wkey, True)
        rk = _branch_kind(rchain, key, rvar, rkey, False)
        ctx.check(INVERSE.get(wk) == rk, wloop,
                  f"fit property '{key}': {wk} / {rk}",
                  f"fit property '{key}' is written with `{wk}` but read "
                  f"back with `{rk}`: settings/parameters differ after "
                  "loading")
    # a joined list is split at the separator it was joined with
    wseps = [(c, c.func.value.value) for c in ast.walk(wloop)
             if isinstance(c, ast.Call) and isinstance(
                 c.func, ast.Attribute) and c.func.attr == "join"
             and isinstance(c.func.value, ast.Constant)
             and isinstance(c.func.value.value, str)]
    rseps = {c.args[0].value for c in ast.walk(rloop)
             if isinstance(c, ast.Call) and isinstance(
                 c.func, ast.Attribute) and c.func.attr == "split"
             and len(c.args) == 1 and isinstance(c.args[0], ast.Constant)
             and isinstance(c.args[0].value, str)}
    if rseps:
        for c, sep in wseps:
            ctx.check(sep in rseps, c,
                      f"list joined with {sep!r} is split with it",
                      f"a list setting is written joined with {sep!r} but "
                      f"the reader splits at {sorted(rseps)}: the entries "
                      "come back with stray characters (step names are no "
                      "longer preprocessing identifiers)")
    # prefix agreement
    from ..symres import Resolver as _Rw
    _rw = _Rw(W.fn, keep={norm(wloop.target)})
    wp = [norm(_rw.resolve(s.targets[0].slice)) for s in ast.walk(wloop)
          if isinstance(s, ast.Assign) and isinstance(
              s.targets[0], ast.Subscript)
          and norm(s.targets[0].value).endswith(".attrs")]
    ok_w = wp == ["'fit {}'.format(key)"] or wp == ["f'fit {key}'"]
    rp = [norm(s.value) for s in ast.walk(rloop) if isinstance(s, ast.Assign)
          and norm(s.targets[0]) == "key"]
    ok_r = rp in (["fkey[4:]"], ["fkey.removeprefix('fit ')"])
    sel = [norm(n) for n in ast.walk(ld) if isinstance(n, ast.ListComp)
           and "startswith('fit ')" in norm(n)]
    ctx.check(ok_w and ok_r and (bool(sel) or sel_in_loop), wloop,
              "attribute prefix 'fit ' written and stripped consistently",
              f"attribute naming of fit properties disagrees: writer {wp}, "
              f"reader {rp}")
    # the curve is looked up by the stored file hash and enumeration
    look = [c for c in calls_in(ld) if isinstance(c.func, ast.Attribute)
            and c.func.attr == "get_enum"]
    ok = len(look) == 1 and norm(look[0].func.value) == \
        "dataset_dict[attrs['data hash']]" and \
        [norm(a) for a in look[0].args] == ["attrs['data enum']"]
    ctx.check(ok, ld, "curve = group of 'data hash', enumeration 'data enum'",
              "the stored analysis is attached to a curve that is not "
              "selected by the stored file hash and enumeration")
    from ..symres import Resolver as _Res
    Rw_ = _Res(W.fn)
    w_ok = {"data enum": "indent.enum",
            "data hash": "hash_file(indent.path)"}
    for a_, v_ in w_ok.items():
        ok = any(isinstance(st, ast.Assign) and norm(st.targets[0]) ==
                 f"{W.outvar}.attrs['{a_}']" and Rw_.text(st.value) == v_
                 for st in walk_no_nested(W.fn, False))
        ctx.check(ok, W.fn, f"attribute '{a_}' <- {v_}",
                  f"'{a_}' is not written from {v_}")
    emb = [c for c in calls_in(W.fn) if isinstance(c.func, ast.Attribute)
           and c.func.attr == "create_dataset"
           and norm(c.func.value) != W.outvar]
    ok = len(emb) == 1 and Rw_.text(emb[0].args[0]) == \
        "hash_file(indent.path)" and \
        "np.fromfile(str(indent.path)" in norm(kwarg(emb[0], "data"))
    ctx.check(ok, W.fn, "raw measurement file embedded under its hash",
              "the embedded measurement is not the curve's file stored "
              "under the file hash")
    # the decoded dict is what the curve receives
    ok = any(isinstance(st, ast.Assign) and norm(st.targets[0]) ==
             "indent.fit_properties" and norm(st.value) == "fit_properties"
             for st in walk_no_nested(ld, False))
    ctx.check(ok, ld, "loaded curve receives the decoded fit properties",
              "the loaded curve does not receive the stored fit properties")
    for field, attr in (("name", "user name"), ("rating", "user rate"),
                        ("comment", "user comment"), ("enum", "data enum")):
        ok = False
        for n in ast.walk(ld):
            if isinstance(n, ast.Dict):
                for k, v in zip(n.keys, n.values):
                    if const_str(k) == field and (
                            norm(v) == f"attrs['{attr}']" or norm(
                                v).startswith(f"attrs.get('{attr}'")):
                        ok = True
        ctx.check(ok, ld, f"rating['{field}'] <- attribute '{attr}'",
                  f"the loaded '{field}' is not the stored '{attr}'")
    # user fields written from the arguments
    for attr, arg in (("user comment", "user_comment"),
                      ("user name", "user_name"), ("user rate", "user_rate")):
        ok = any(isinstance(st, ast.Assign) and norm(st.targets[0]) ==
                 f"{W.outvar}.attrs['{attr}']" and norm(st.value) == arg
                 for st in walk_no_nested(W.fn, False))
        ctx.check(ok, W.fn, f"attribute '{attr}' <- {arg}",
                  f"'{attr}' is not written from `{arg}`")
        if not ok:
            continue
        # ... on every save that returns normally (re-saving updates it)
        cfg = _writer_cfg(W)
        sts = [cfg.node_of_stmt(st) for st in walk_no_nested(W.fn, False)
               if isinstance(st, ast.Assign) and norm(st.targets[0]) ==
               f"{W.outvar}.attrs['{attr}']"]
        sts = [n for n in sts if n is not None]
        exits = cfg.normal_exits()
        dom = bool(sts) and all(any(cfg.dominates(n.id, e) for n in sts)
                                for e in exits)
        ctx.check(dom, sts[0].ast if sts else W.fn,
                  f"attribute '{attr}' written on every completed save",
                  f"'{attr}' is only written on some paths of save_hdf5: "
                  f"storing the same curve again can keep the previous "
                  f"value (e.g. a cleared comment is not stored)")


def _writer_cfg(W):
    if getattr(W, "_cfg", None) is None:
        W._cfg = CFG(W.fn)
    return W._cfg


MUT_ATTRS = ("create_dataset", "create_group", "require_dataset",
             "__setitem__", "__delitem__", "pop", "clear", "move", "copy",
             "update", "modify", "create")
USER_ATTRS = {"user comment", "user name", "user rate", "user time",
              "user time str", "nanite version", "h5py version"}


def _h5_mutations(fn, W):
    """[(node, kind, target_text, key)] HDF5 mutations in save_hdf5"""
    out = []
    for n in walk_no_nested(fn, False):
        if isinstance(n, ast.Call) and isinstance(n.func, ast.Attribute) and \
                n.func.attr in MUT_ATTRS:
            out.append((n, n.func.attr, norm(n.func.value),
                        norm(n.args[0]) if n.args else ""))
        elif isinstance(n, ast.Assign):
            for t in n.targets:
                if isinstance(t, ast.Subscript) and (
                        norm(t.value).endswith(".attrs")
                        or norm(t.value) in ("h5", "ana", "data", W.outvar)):
                    out.append((n, "setitem", norm(t.value),
                                const_str(t.slice) or norm(t.slice)))
        elif isinstance(n, ast.Delete):
            for t in n.targets:
                out.append((n, "delete", norm(t), ""))
    return out


def _incomplete_only(node, tgt):
    """the statement runs only when `tgt` lacks the completeness marker"""
    return any((not a.pol) and a.text == f"'user rate' in {tgt}.attrs"
               for a in conditions_at(node))


def _no_delete_of_complete_entries(ctx):
    """independent of the writer's branch structure: a `del` in save_hdf5
    removes only an entry without the completeness marker"""
    fn = ctx.repo.mod("rate.io").func("save_hdf5")
    for n in walk_no_nested(fn, False):
        if isinstance(n, ast.Delete):
            for t in n.targets:
                tgt = norm(t)
                ctx.check(_incomplete_only(n, tgt), n,
                          f"delete {tgt} only when it is incomplete",
                          "save_hdf5 deletes an entry from the container "
                          "that may be complete: the stored rating of that "
                          "curve is lost if anything after the delete "
                          "fails, and storing the same curve again "
                          "replaces more than the user fields")
        if isinstance(n, ast.Call) and isinstance(n.func, ast.Attribute) \
                and n.func.attr in ("pop", "clear") and norm(
                    n.func.value) in ("ana", "data", "h5"):
            ctx.fail(n, f"{norm(n)[:40]}",
                     "save_hdf5 removes entries from the container")


def r2_append_only(ctx):
    _no_delete_of_complete_entries(ctx)
    W = Writer(ctx.repo)
    muts = _h5_mutations(W.fn, W)
    ctx.floor("HDF5 mutations in save_hdf5", len(muts), 10)
    in_exists = lambda n: any(n is x for s in W.exists_if.body
                              for x in ast.walk(s))
    in_new = lambda n: any(n is x for s in W.exists_if.orelse
                           for x in ast.walk(s))
    for node, kind, tgt, key in muts:
        if kind == "delete":
            continue      # judged by _no_delete_of_complete_entries
        if in_exists(node):
            ctx.fail(node, f"{kind} on {tgt} in the existing-entry branch",
                     "an already stored entry is modified beyond the user "
                     "fields (stored fit/columns can change)")
            continue
        if in_new(node):
            ok = tgt in (W.group_parent, W.outvar, f"{W.outvar}.attrs")
            ctx.check(ok, node, f"new entry: {kind} {tgt}[{key}]",
                      f"while creating a new entry save_hdf5 modifies {tgt}")
            continue
        conds = conditions_at(node)
        if kind == "create_dataset" and tgt != W.outvar:
            ok = any((not a.pol) and a.text == f"{key} in {tgt}"
                     for a in conds)
            ctx.check(ok, node, f"{tgt}.create_dataset({key}) only if absent",
                      "the embedded measurement file is (re)written although "
                      "it is already stored")
        elif kind == "setitem" and tgt.endswith(".attrs"):
            owner = tgt[:-len(".attrs")]
            if owner == W.outvar:
                ctx.check(key in USER_ATTRS, node,
                          f"common tail writes attribute '{key}'",
                          f"attribute '{key}' of an existing entry is "
                          "overwritten on every save (only the user fields "
                          "and version stamps may change)")
            else:
                # attribute of the freshly created data set
                ok = any((not a.pol) and " in data" in a.text for a in conds)
                ctx.check(ok, node, f"{tgt}['{key}'] on the new data set",
                          f"{tgt}['{key}'] rewritten for existing data")
        elif kind in ("create_group",):
            ctx.fail(node, f"{kind} outside the new-entry branch",
                     "group creation outside the guarded branch")
        else:
            ctx.ok(node, f"{kind} {tgt}")
    # the new-entry branch is guarded by absence of the group
    t = W.exists_if.test
    ok = isinstance(t, ast.Compare) and isinstance(t.ops[0], ast.In) and \
        norm(t.left) == W.group_name and norm(t.comparators[0]) == \
        W.group_parent
    ctx.check(ok, W.exists_if, f"new entry iff {W.group_name} not in "
              f"{W.group_parent}",
              "the new-entry branch is not guarded by the absence of the "
              "entry's group")
    # existing entry: `out` is that group
    ok = any(isinstance(s, ast.Assign) and norm(s.targets[0]) == W.outvar
             and norm(s.value) == f"{W.group_parent}[{W.group_name}]"
             for s in W.exists_if.body)
    ctx.check(ok, W.exists_if, "existing entry reused for the user fields",
              "the user fields are not written to the existing entry")
    # default open mode appends
    d = dict(zip([a.arg for a in W.fn.args.args][-len(W.fn.args.defaults):],
                 W.fn.args.defaults))
    m = d.get("h5mode")
    ctx.check(m is not None and const_str(m) == "a", W.fn,
              "default file mode 'a'",
              "save_hdf5 does not open the container in append mode by "
              "default (existing entries are truncated)")


def r3_refusal(ctx):
    W = Writer(ctx.repo)
    cfg = W.cfg
    raises = [n for n in cfg.nodes if n.kind == "stmt"
              and isinstance(n.ast, ast.Raise)
              and any(n.ast is x for s in W.exists_if.body
                      for x in ast.walk(s))]
    ctx.check(len(raises) == 1, W.exists_if, "refusal raise present",
              "storing a different fit for an already stored curve is no "
              "longer refused")
    if len(raises) != 1:
        return
    rz = raises[0]
    # mutations that may precede the raise
    muts = _h5_mutations(W.fn, W)
    for node, kind, tgt, key in muts:
        n = cfg.node_containing(node)
        if n is None:
            continue
        if rz.id in cfg.reach([n.id], skip_labels=("exc",)):
            harmless = (kind == "create_dataset" and tgt != W.outvar) or (
                kind == "setitem" and not tgt.startswith(W.outvar)) or (
                kind == "delete" and _incomplete_only(node, tgt))
            ctx.check(harmless, node,
                      f"{kind} {tgt} may precede the refusal",
                      "the container is modified before a different fit is "
                      "refused")
    # require_group is idempotent; fine.
    conds = conditions_at(rz.ast, stop=W.exists_if)
    cmp_ok = False
    for a in conds:
        c = a.node
        if isinstance(c, ast.Call) and call_name(c) in ("np.allclose",
                                                        "np.array_equal"):
            from ..symres import Resolver as _Res
            res_ = _Res(W.fn)
            args = set()
            for x in c.args[:2]:
                if isinstance(x, ast.Subscript) and isinstance(
                        x.value, ast.Name) and x.value.id != "indent":
                    v_ = res_.reaching_value(x.value)
                    if v_ is not None:
                        args.add(f"{norm(v_)}[{norm(x.slice)}]")
                        continue
                args.add(norm(x))
            same_cols = args == {"indent['fit']",
                                 f"{W.group_parent}[{W.group_name}]['fit']"}
            ctx.check(same_cols and not a.pol, c,
                      f"refusal compares {sorted(args)}",
                      "the refusal does not compare the curve's fit with "
                      "the stored fit")
            if call_name(c) == "np.allclose":
                at = kwarg(c, "atol")
                en = kwarg(c, "equal_nan")
                ctx.check(at is not None and literal(at) == 0, c,
                          "comparison without absolute tolerance",
                          "np.allclose is used with its default absolute "
                          "tolerance (1e-8) on force values of the order of "
                          "1e-9: every fit compares equal, a different fit "
                          "is accepted and the stored rating is overwritten")
                ctx.check(en is not None and literal(en) is True, c,
                          "NaN-aware comparison",
                          "the fit columns contain NaN outside the fitted "
                          "segment; without equal_nan the same fit is "
                          "refused")
            cmp_ok = True
    ctx.check(cmp_ok, rz.ast, "refusal guarded by a comparison of the fits",
              "the refusal is not guarded by a comparison of stored and new "
              "fit")


def r4_crash_window(ctx):
    W = Writer(ctx.repo)
    io = W.mod
    _raw_data_window(ctx, W)
    _incomplete_group_reuse(ctx, W)
    order = W.creation_order()
    pos = {}
    for i, it in enumerate(order):
        pos.setdefault(it, i)
    ctx.note("creation order: " + " > ".join(f"{k}:{n}" for k, n in order))

    def position(kind, name):
        if (kind, name) in pos:
            return pos[(kind, name)]
        if kind == "attr" and name.startswith("fit ") and \
                ("attr", "fit *") in pos:
            return pos[("attr", "fit *")]
        return None

    for fn, label, bases in ((io.func("load_hdf5"), "load_hdf5",
                              ("h5gr", "attrs", "h5gr.attrs")),
                             (io.func("hdf5_rated"), "hdf5_rated", None)):
        reads = []
        for n in walk_no_nested(fn, False):
            if isinstance(n, ast.Subscript) and isinstance(n.ctx, ast.Load) \
                    and const_str(n.slice):
                base = norm(n.value)
                if bases is not None and base not in bases and \
                        "analysis" not in base:
                    continue
                if base.endswith("attrs") and "dset" not in base and \
                        "meas" not in base:
                    reads.append((("attr", const_str(n.slice)), n))
                elif base == "h5gr":
                    reads.append((("dataset", const_str(n.slice)), n))
        tolerant = [c for c in calls_in(fn) if isinstance(
            c.func, ast.Attribute) and c.func.attr == "get" and c.args
            and const_str(c.args[0]) and len(c.args) == 2
            and norm(c.func.value).endswith("attrs")]
        for c in tolerant:
            ctx.ok(c, f"{label}: {norm(c)[:50]} tolerates a missing item")
        ctx.floor(f"entry items read by {label}",
                  len(reads) + len(tolerant), 2)
        for item, node in reads:
            present = {("group", W.group_name)}
            for a in conditions_at(node):
                nd = a.node
                if a.pol and isinstance(nd, ast.Compare) and isinstance(
                        nd.ops[0], ast.In) and const_str(nd.left):
                    kind = "attr" if norm(nd.comparators[0]).endswith(
                        "attrs") else "dataset"
                    present.add((kind, const_str(nd.left)))
            _check_window(ctx, fn, label, present, {item}, position, order,
                          node)


def _raw_data_window(ctx, W):
    """the embedded measurement: dataset first, its 'path' attribute
    second - a save that fails in between leaves a data set without the
    attribute every later load needs"""
    io = W.mod
    ld = io.func("load_hdf5")
    reads = [n for n in walk_no_nested(ld, False)
             if isinstance(n, ast.Subscript) and isinstance(n.ctx, ast.Load)
             and const_str(n.slice) == "path"
             and norm(n.value).endswith("attrs")]
    ctx.floor("reads of the raw data's 'path' attribute", len(reads), 1)
    for n in reads:
        base = norm(n.value)
        guarded = any(a.pol and a.text == f"'path' in {base}"
                      for a in conditions_at(n))
        ctx.check(guarded, n, "raw data without 'path' are skipped",
                  "load_hdf5 reads the 'path' attribute of every embedded "
                  "measurement without testing that it exists: a save that "
                  "failed between creating the data set and writing its "
                  "'path' leaves an entry on which every later load raises "
                  "KeyError - all previously stored ratings become "
                  "unreadable")
    stores = [st for st in walk_no_nested(W.fn, False)
              if isinstance(st, ast.Assign) and isinstance(
                  st.targets[0], ast.Subscript)
              and const_str(st.targets[0].slice) == "path"
              and norm(st.targets[0].value).endswith("attrs")]
    ctx.floor("writes of the raw data's 'path' attribute", len(stores), 1)
    completes = False
    for st in stores:
        conds = conditions_at(st)
        absent = any((not a.pol) and a.text.endswith(" in data") and
                     "path" not in a.text for a in conds)
        if not absent:
            completes = True
    ctx.check(completes, stores[0],
              "a data set left without 'path' is completed by the next save",
              "save_hdf5 writes the 'path' attribute only when it creates "
              "the data set: a data set left behind by a failed save is "
              "never completed, yet later saves attach ratings to it")


def _incomplete_group_reuse(ctx, W):
    """the existing-entry branch must not put the completeness marker on a
    group that an earlier, failed save left incomplete"""
    ex = W.exists_if
    marker = "user rate"
    reuse = [st for st in ex.body if isinstance(st, ast.Assign)
             and norm(st.targets[0]) == W.outvar]
    if not reuse:
        raise Undecided("save_hdf5: existing entry is not bound to the "
                        "output variable")
    grp = norm(reuse[0].value)                  # ana[idd]
    conds = conditions_at(reuse[0])
    ok = any(a.pol and a.text == f"'{marker}' in {grp}.attrs" for a in conds)
    if not ok:
        # ... or incomplete groups are removed before the branch
        cfg = CFG(W.fn)
        test = cfg.node_containing(ex.test)
        for st in walk_no_nested(W.fn, False):
            if isinstance(st, ast.Delete) and any(
                    norm(t) == grp for t in st.targets):
                c2 = conditions_at(st)
                if any((not a.pol) and a.text ==
                       f"'{marker}' in {grp}.attrs" for a in c2):
                    dn = cfg.node_of_stmt(st)
                    if dn is not None and test is not None and \
                            test.id in cfg.reach([dn.id]):
                        ok = True
    ctx.check(ok, reuse[0], "an incomplete group is never reused",
              f"save_hdf5 reuses an existing group `{grp}` without testing "
              f"that it is complete ('{marker}' present): a group left "
              f"behind by a save that failed between two create_dataset "
              f"calls receives the '{marker}' marker on the next save of "
              f"the same curve and load_hdf5 then raises KeyError for the "
              f"whole container")


def _check_window(ctx, fn, name, skip, req, position, order, node=None):
    sp = [position(k, n) for k, n in skip]
    sp = [p for p in sp if p is not None]
    if not sp:
        ctx.fail(node or fn, f"{name}: completeness test",
                 f"{name} has no completeness test")
        return
    fn = node or fn
    last_skip = max(sp)
    for k, n in sorted(req):
        p = position(k, n)
        if p is None:
            ctx.fail(fn, f"{name} requires {k} '{n}'",
                     f"{name} requires {k} '{n}' which the writer never "
                     "creates")
            continue
        ctx.check(p <= last_skip, fn,
                  f"{name}: {k} '{n}' written before the completeness "
                  "marker",
                  f"{name} requires {k} '{n}' (creation step {p}) but its "
                  f"completeness test {sorted(skip)} is satisfied after "
                  f"step {last_skip}: a save that fails in between leaves an "
                  f"entry on which {name} raises - for load_hdf5 this makes "
                  "every previously stored rating unreadable")


def r5_lookup_key(ctx):
    W = Writer(ctx.repo)
    hr = W.mod.func("hdf5_rated")
    from ..symres import Resolver
    Rw, Rr = Resolver(W.fn), Resolver(hr)
    names = [Rw.text(st.value) for st in walk_no_nested(W.fn, False)
             if isinstance(st, ast.Assign)
             and norm(st.targets[0]) == W.group_name]
    names2 = [Rr.text(st.value) for st in walk_no_nested(hr, False)
              if isinstance(st, ast.Assign)
              and norm(st.targets[0]) == W.group_name]
    ctx.check(bool(names) and names == names2, hr,
              f"lookup key {names2} == writer's group name {names}",
              "hdf5_rated looks an entry up under a different name than "
              "save_hdf5 stores it")
    for f, nn in ((W.fn, names), (hr, names2)):
        ctx.check(bool(nn) and all(
            "{hash_file(indent.path)}_{indent.enum}" in x for x in nn), f,
                  f"{f.name}: entry name = {nn}",
                  "the entry name is not '<hash of the curve's file>_"
                  "<enumeration>'")
    # returned fields
    for st in walk_no_nested(hr, False):
        if isinstance(st, ast.Assign) and norm(st.targets[0]) in ("rating",
                                                                  "comment")\
                and (isinstance(st.value, ast.Subscript) or (
                    isinstance(st.value, ast.Call) and isinstance(
                        st.value.func, ast.Attribute)
                    and st.value.func.attr == "get" and st.value.args)):
            want = {"rating": "user rate", "comment": "user comment"}[
                norm(st.targets[0])]
            got = const_str(st.value.slice) if isinstance(
                st.value, ast.Subscript) else const_str(st.value.args[0])
            ctx.check(got == want, st,
                      f"{norm(st.targets[0])} <- '{got}'",
                      "hdf5_rated returns the wrong attribute")


def r6_extracted_names(ctx):
    """load_hdf5 restores every embedded measurement file into one
    temporary directory: the file name must contain the dataset key (the
    file hash), otherwise two measurements with the same base name
    overwrite each other and the curves of the first are lost."""
    ld = ctx.repo.mod("rate.io").func("load_hdf5")
    from ..symres import Resolver
    R = Resolver(ld)
    n = 0
    for lp in walk_no_nested(ld, False):
        if not isinstance(lp, ast.For):
            continue
        outs = [c for st in lp.body for c in ast.walk(st)
                if isinstance(c, ast.Call) and isinstance(
                    c.func, ast.Attribute) and c.func.attr in (
                        "tofile", "write_bytes", "write") and c.args]
        if not outs or not isinstance(lp.target, ast.Name):
            continue
        key = lp.target.id
        for c in outs:
            n += 1
            dest = c.args[0] if c.func.attr == "tofile" else c.func.value
            txt = R.text(dest)
            # the key as a component of the name - not as the index
            # through which the stored attributes are looked up
            res_ = R.resolve(dest)
            in_index = {id(x) for sub in ast.walk(res_)
                        if isinstance(sub, ast.Subscript)
                        for x in ast.walk(sub.slice)}
            names = {x.id for x in ast.walk(res_)
                     if isinstance(x, ast.Name) and id(x) not in in_index}
            ctx.check(key in names, c,
                      f"extracted file name depends on the dataset key "
                      f"`{key}`",
                      f"load_hdf5 writes every embedded measurement to "
                      f"`{txt[:70]}`, which does not contain the dataset "
                      f"key `{key}`: two stored files with the same base "
                      "name overwrite each other and the ratings of the "
                      "first become unreadable")
    ctx.floor("extraction sites in load_hdf5", n, 1)


def r7_whole_file_hash(ctx):
    """entries are keyed by the hash of the measurement file: the hash must
    cover the whole file (two files that agree in their first blocks are
    different files)"""
    fn = ctx.repo.mod("rate.io").func("hash_file")
    ctx.analysed(fn)
    loops = [n for n in walk_no_nested(fn, False)
             if isinstance(n, (ast.While, ast.For)) and any(
                 isinstance(c, ast.Call) and isinstance(
                     c.func, ast.Attribute) and c.func.attr == "update"
                 for c in ast.walk(n))]
    if len(loops) != 1:
        raise Undecided("hash_file: the read/update loop was not found")
    lp = loops[0]
    early = [x for x in ast.walk(lp) if isinstance(x, (ast.Break,
                                                       ast.Return))]
    ctx.check(not early, early[0] if early else lp,
              "hash_file reads until the end of the file",
              "hash_file leaves its read loop early "
              f"(`{norm(early[0])[:30] if early else ''}` under "
              + " and ".join(repr(a) for a in (conditions_at(
                  early[0], stop=lp) if early else []))[:80]
              + "): only a prefix of the file is hashed, so two "
              "measurement files that start identically share their "
              "entries - curves of the second are reported as rated, are "
              "refused as 'different fit' or overwrite the first file's "
              "ratings")
    if isinstance(lp, ast.While):
        t = norm(lp.test)
        ctx.check("buf" in t or "len(" in t or t == "True", lp,
                  f"loop continues while data were read ({t[:40]})",
                  "the read loop of hash_file does not depend on the data "
                  "read")
    reads = [c for c in ast.walk(fn) if isinstance(c, ast.Attribute)
             and c.attr == "read"]
    ctx.floor("read calls in hash_file", len(reads), 1)
    upd = [c for c in ast.walk(lp) if isinstance(c, ast.Call) and isinstance(
        c.func, ast.Attribute) and c.func.attr == "update"]
    for u in upd:
        ctx.check(not conditions_at(u, stop=lp), u,
                  "every block read is hashed",
                  "hash_file skips blocks: the hash does not cover the "
                  "whole file")


def _plain_numbers(e, body, depth=0):
    """`e` evaluates to a sequence of plain Python numbers whatever the
    caller stored: every element passes through float()/int(), or the
    sequence comes from ndarray.tolist()"""
    if depth > 4 or e is None:
        return False
    conv = ("float", "int")
    if isinstance(e, (ast.Tuple, ast.List)):
        return bool(e.elts) and all(
            isinstance(x, ast.Call) and call_name(x) in conv for x in e.elts)
    if isinstance(e, (ast.ListComp, ast.GeneratorExp)):
        return isinstance(e.elt, ast.Call) and call_name(e.elt) in conv
    if isinstance(e, ast.Call):
        cn = call_name(e) or ""
        if cn in ("tuple", "list") and len(e.args) == 1:
            return _plain_numbers(e.args[0], body, depth + 1)
        if cn == "map" and len(e.args) == 2 and norm(e.args[0]) in conv:
            return True
        if isinstance(e.func, ast.Attribute) and e.func.attr == "tolist" \
                and not e.args:
            return True
    if isinstance(e, ast.Name):
        defs = [n for st in body for n in ast.walk(st)
                if isinstance(n, ast.Assign) and norm(n.targets[0]) == e.id
                and n.value is not e]
        return len(defs) == 1 and _plain_numbers(defs[0].value, body,
                                                 depth + 1)
    return False


_NUMSPEC = re.compile(r"[eEfFgGdn%]$")


def _formatted_numbers(v):
    """text built by formatting: True when every interpolated value is
    formatted as a number (numeric format spec) or converted with float()/
    int() first; False when a value is inserted with its own str()/repr();
    None when `v` is not such an expression"""
    conv = ("float", "int")

    def is_conv(x):
        return isinstance(x, ast.Call) and call_name(x) in conv
    if isinstance(v, ast.JoinedStr):
        vals = [x for x in v.values if isinstance(x, ast.FormattedValue)]
        if not vals:
            return None
        return all(is_conv(x.value) or (
            x.format_spec is not None and len(x.format_spec.values) == 1
            and isinstance(x.format_spec.values[0], ast.Constant)
            and _NUMSPEC.search(str(x.format_spec.values[0].value))
            and x.conversion == -1) for x in vals)
    if isinstance(v, ast.Call) and isinstance(v.func, ast.Attribute) and \
            v.func.attr == "format" and isinstance(
                v.func.value, ast.Constant) and isinstance(
                v.func.value.value, str):
        fields = re.findall(r"\{([^{}]*)\}", v.func.value.value)
        if not fields:
            return None
        if all(":" in f and _NUMSPEC.search(f.split(":", 1)[1])
               and "!" not in f for f in fields):
            return True
        return bool(v.args) and not v.keywords and all(
            is_conv(x) for x in v.args)
    if isinstance(v, ast.BinOp) and isinstance(v.op, ast.Mod) and isinstance(
            v.left, ast.Constant) and isinstance(v.left.value, str):
        specs = re.findall(r"%[-+ #0-9.]*([a-zA-Z])", v.left.value)
        if not specs:
            return None
        if all(c in "eEfFgGdi" for c in specs):
            return True
        args = v.right.elts if isinstance(v.right, ast.Tuple) else [v.right]
        return all(is_conv(x) for x in args)
    return None


def r8_textual_numbers(ctx):
    """A setting that is stored as the text of a Python sequence and parsed
    back with float() round-trips only when the text holds plain numbers:
    str() of a numpy scalar is 'np.float64(...)' (numpy >= 2), which float()
    rejects - the container, with every rating already in it, becomes
    unreadable.  The writer has to convert the elements itself (the settings
    keep whatever the caller passed to fit_model)."""
    W = Writer(ctx.repo)
    io = W.mod
    _load_dispatch(io)
    ctx.analysed(W.fn)
    wloop = None
    for n in walk_no_nested(W.fn, False):
        if isinstance(n, ast.For) and "fit_properties" in norm(n.iter):
            wloop = n
    if wloop is None:
        raise Undecided("cannot find the fit-properties loop of the writer")
    wchain = None
    for s in wloop.body:
        if isinstance(s, ast.If):
            wchain = _chain(s)
    if wchain is None:
        raise Undecided("encoding branches not found")
    wkey = norm(wloop.target) if isinstance(wloop.target, ast.Name) else "key"
    keys = list(facts.fp_default(ctx.repo)) + list(facts.fp_results(ctx.repo))
    # does the settings store itself convert the value?
    fitm = ctx.repo.mod("fit")
    setter = fitm.funcs.get("FitProperties.__setitem__")
    n = 0
    for key in keys:
        taken = None
        for test, body in wchain:
            v = True if test is None else _key_test(test, key, wkey)
            if v is None:
                raise Undecided(f"cannot evaluate branch test {norm(test)} "
                                f"for key {key}")
            if v:
                taken = body
                break
        if taken is None:
            continue
        for st in taken:
            for a in ast.walk(st):
                if not (isinstance(a, ast.Assign) and isinstance(
                        a.value, (ast.Call, ast.JoinedStr, ast.BinOp))):
                    continue
                v = a.value
                if isinstance(v, ast.Call) and isinstance(
                        v.func, ast.Subscript) and isinstance(
                        v.func.value, ast.Name) and v.func.value.id in \
                        _DISPATCH and key in _DISPATCH[v.func.value.id]:
                    v = _beta(ast.Call(func=_DISPATCH[v.func.value.id][key],
                                       args=v.args, keywords=v.keywords))
                ok = None
                if isinstance(v, ast.Call) and call_name(v) in (
                        "str", "repr") and len(v.args) == 1:
                    ok = _plain_numbers(v.args[0], taken)
                else:
                    ok = _formatted_numbers(v)
                if ok is None:
                    continue
                n += 1
                if not ok and setter is not None:
                    for s2 in walk_no_nested(setter, False):
                        if isinstance(s2, ast.Assign) and norm(
                                s2.targets[0]) == "value" and \
                                _plain_numbers(s2.value, [s2]) and any(
                                    c.pol and f"'{key}'" in c.text
                                    for c in conditions_at(s2)):
                            ok = True
                ctx.check(ok, a, f"'{key}' is written as the text of plain "
                          "Python numbers",
                          f"rate/io.py:save_hdf5 writes the setting '{key}' "
                          f"as `{norm(a.value)}` of whatever the caller "
                          "passed to fit_model: with numpy scalars (e.g. "
                          f"{key}=(tip.min(), 0)) the attribute reads "
                          "'(np.float64(-1e-06), 0)', load_hdf5 raises "
                          "ValueError in float() and the container - "
                          "including all ratings stored before - cannot be "
                          "loaded any more")
    ctx.floor("settings stored as the text of a sequence", n, 1)


def r9_every_rating_is_saved(ctx):
    """The rating dialog stores what was entered: the only reason not to
    save is an empty field.  A test on the converted number (truthiness,
    > 0) drops legitimate values - 0 is a rating."""
    from ..symres import Resolver as _Res
    rm = ctx.repo.mod("cli.rating")
    fn = rm.funcs.get("RatingGUI.save")
    if fn is None:
        raise AnchorError("RatingGUI.save not found")
    ctx.analysed(fn)
    calls = [c for c in calls_in(fn)
             if (call_name(c) or "").endswith("save_hdf5")]
    ctx.floor("save_hdf5 calls of the rating dialog", len(calls), 1)
    R = _Res(fn)
    for c in calls:
        bad = None
        for a in conditions_at(c):
            e = R.resolve(a.node)
            numeric = any(isinstance(x, ast.Call) and call_name(x) in (
                "int", "float", "round") for x in ast.walk(e))
            none_test = isinstance(e, ast.Compare) and isinstance(
                e.ops[0], (ast.Is, ast.IsNot))
            if numeric and not none_test:
                bad = a
        ctx.check(bad is None, c, "the dialog saves every entered rating",
                  f"RatingGUI.save stores the rating only when "
                  f"`{bad!r}` holds - a test on the converted number "
                  f"(`{R.text(bad.node)[:60] if bad else ''}`): a rating "
                  "of 0 is never written, and re-rating a stored curve "
                  "with 0 silently keeps the old user fields")
        ur = kwarg(c, "user_rate")
        if ur is not None:
            t = R.text(ur)
            ctx.check("self.rating.get()" in t, c,
                      f"user_rate <- {t[:50]}",
                      f"the stored rating is `{t[:60]}`, not the value of "
                      "the rating field")



def r10_one_row_per_rating(ctx):
    """features recomputed from a loaded container stay paired with the
    stored ratings: shared with C15-R4"""
    from .c15 import r4_export_load
    r4_export_load(ctx)


RULES = [
    ("C16-R1", "writer and reader tables agree (datasets, attributes, "
     "inverse encodings)", r1_tables_agree),
    ("C16-R2", "append-only: mutations only on new items or user fields",
     r2_append_only),
    ("C16-R3", "a different fit is refused before anything is written, "
     "compared without absolute tolerance", r3_refusal),
    ("C16-R4", "no crash window: completeness markers are written after "
     "everything the readers require", r4_crash_window),
    ("C16-R5", "already-rated lookup uses the writer's key", r5_lookup_key),
    ("C16-R6", "embedded measurement files are extracted under names that "
     "are unique per stored file", r6_extracted_names),
    ("C16-R7", "the file hash that keys the entries covers the whole file",
     r7_whole_file_hash),
    ("C16-R8", "settings stored as text are written as plain Python numbers "
     "(the reader parses them with float())", r8_textual_numbers),
    ("C16-R9", "the rating dialog stores every entered rating (0 included)",
     r9_every_rating_is_saved),
    ("C16-R10", 'the sample matrix of a container has one row per stored rating (no curve skipped)',
     r10_one_row_per_rating),
]
