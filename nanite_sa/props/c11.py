"""C11 — geometrical correction factor rescales the modulus and nothing
else."""
from __future__ import annotations

from .. import fitclauses

EXPLANATION = (
    "Unit-tag analysis of the fitter, for every model, k and range type: "
    "(R1) abscissa (segment and fitted part) and the initial contact point "
    "are multiplied by gcf_k exactly once before lmfit.minimize, the fitted "
    "contact point and xmin/xmax are divided by it once afterwards, result "
    "columns are evaluated in the scaled domain before the conversion, and "
    "no other fitter method (range masks, relative-cp anchoring, plateau "
    "scan) applies the factor; (R2) the scaling is applied to a private "
    "copy of the stored initial parameters, so multi-pass fits do not "
    "compound it and the stored guess stays in measured units; (R3) the "
    "power-law models are homogeneous of degree p in depth and 1 in E "
    "(p = 3/2 paraboloid, 2 cone and pyramid; from the formula normal "
    "form), which together with R1 is the algebraic reason for "
    "E_k = E_1 k^-p.")
NOT_DECIDED = [
    "numerical equality of the k and k=1 fits (optimizer trajectories)",
]


def r2_private_copy(ctx):
    from .c03 import r7_no_edit_behind_hash
    r7_no_edit_behind_hash(ctx)


def r3_homogeneity(ctx):
    from .c02 import homogeneity_degrees
    homogeneity_degrees(ctx)


def r1b_writeback(ctx):
    fitclauses.clause_writeback_consistent(ctx)


def r1c_mask_unscaled(ctx):
    fitclauses.clause_absolute_mask(ctx)
    fitclauses.clause_relative_cp(ctx)



def r4_k_change_refits(ctx):
    """a changed correction factor is a changed setting: the stored results
    are dropped and the next request fits again (no rescaling of an old
    result in place, whose exponent would have to depend on the model):
    the invalidation rule of FitProperties.__setitem__ (shared with C01-R6)"""
    from .. import fitrules
    fitrules.setitem_invalidation(
        ctx, why=" (results obtained with another correction factor stay "
        "visible)")


RULES = [
    ("C11-R1", "scale before / convert back after, once each; nothing else "
     "uses the factor", fitclauses.clause_gcf_pairing),
    ("C11-R1b", "result columns evaluated in the scaled domain before the "
     "conversion", r1b_writeback),
    ("C11-R1c", "range masks and anchoring work on the unscaled abscissa",
     r1c_mask_unscaled),
    ("C11-R2", "scaling works on a private copy of the stored guess",
     r2_private_copy),
    ("C11-R3", "homogeneity degree of the power-law models", r3_homogeneity),
    ("C11-R4", "a changed correction factor drops the stored results "
     "(no in-place rescaling of an old result)", r4_k_change_refits),
]
