"""C18 — model registry accepts only complete, consistent models."""
from __future__ import annotations

import ast

from ..astutil import (call_name, calls_in, const_str, dotted, kwarg, literal,
                       norm, walk_no_nested)
from ..cfg import CFG
from ..dataflow import possibly_unbound, reaching_defs
from ..guards import conditions_at
from ..loader import AnchorError, Undecided

EXPLANATION = (
    "Static necessary conditions of the registry contract, decided on the "
    "current source: (R1) models_available is written only by "
    "register_model/deregister_model and the stored value is always a "
    "validated NaniteFitModel under the model's own key; (R2) every "
    "attribute NaniteFitModel reads from the wrapped module is required by "
    "_module_check, auto-completed, or hasattr-guarded, the check runs "
    "first, and each default wrapper is supplied under no other condition "
    "than the absence of that very attribute (residual and model are "
    "independently optional); (R3) load_model_from_file: definite assignment on every path "
    "(incl. exceptional paths through `finally`), no return/raise inside "
    "`finally` that would swallow ModelImportError, sys.path insert/remove "
    "and dont_write_bytecode set/unset paired on all exits; (R4) ancillary "
    "seeding is guarded by key membership and a NaN test, and "
    "get_anc_parm_keys = common + own; (R5) every consistency test of "
    "_module_check raises a ModelError subclass.")
NOT_DECIDED = [
    "that a model loaded from a file behaves like the shipped code (module "
    "identity in sys.modules, import side effects) - runtime behaviour of "
    "importlib",
    "registry contents after arbitrary interleavings beyond 'one writer, "
    "one remover, validated value' (value-dependent)",
]
ASSUMPTIONS = [
    "hasattr()/getattr() on a plain module object have no side effects",
]

REG = "models_available"
MUTATORS = {"pop", "update", "clear", "setdefault", "popitem", "__setitem__",
            "__delitem__"}


def _is_registry(node, mod) -> bool:
    d = dotted(node)
    if d is None:
        return False
    if d == REG:
        return True
    return d.endswith("." + REG)


CACHES = {"functools.lru_cache", "lru_cache", "functools.cache", "cache",
          "functools.cached_property", "cached_property"}


def _no_cached_readers(ctx):
    """a function that (transitively) reads the registry must not memoise
    its result: after deregister/register it would answer from the cache"""
    from ..callgraph import CallGraph
    repo = ctx.repo
    readers = set()
    for m, q, f in repo.all_funcs():
        for n in walk_no_nested(f, include_self=False):
            if isinstance(n, (ast.Name, ast.Attribute)) and isinstance(
                    getattr(n, "ctx", None), ast.Load) and \
                    _is_registry(n, m):
                readers.add((m.name, q))
    ctx.floor("functions reading models_available", len(readers), 3)
    cg = CallGraph(repo)
    n_c = 0
    for m, q, f in repo.all_funcs():
        decs = []
        for d in f.decorator_list:
            dn = call_name(d) if isinstance(d, ast.Call) else dotted(d)
            if dn in CACHES:
                decs.append(dn)
        if not decs or not (m.name == "model"
                            or m.name.startswith("model.")):
            # (only the registry's own look-up surface; memoised CLI
            # conveniences keyed on a curve object are out of scope)
            continue
        n_c += 1
        hit = cg.reachable([(m.name, q)]) & readers
        ctx.check(not hit, f, f"memoised {m.name}.{q} does not depend on "
                  "the registry",
                  f"{m.relpath}:{q} is memoised ({decs[0]}) but reads the "
                  f"model registry through {sorted(hit)[:2]}: after "
                  f"deregister_model / register_model it keeps answering "
                  f"for the previous registry contents")
    ctx.note(f"{n_c} memoised functions examined")


def _model_tables_not_edited(ctx):
    """a model's declared lists (parameter_keys, parameter_anc_keys, ...)
    are read-only after registration: a method that edits one in place
    (directly or through a local alias) changes the model for every later
    call - names, units and ancillary keys no longer belong together"""
    from .. import effects
    core = ctx.repo.mod("model.core")
    n = 0
    for q, f in core.funcs.items():
        if not q.startswith("NaniteFitModel.") or q.endswith((
                ".__init__", "._module_autocomplete", "._module_check")):
            continue
        roots = {}
        for st in walk_no_nested(f, False):
            if isinstance(st, ast.Assign) and len(st.targets) == 1 and \
                    isinstance(st.targets[0], ast.Name) and isinstance(
                    st.value, ast.Attribute) and isinstance(
                    st.value.value, ast.Name) and st.value.value.id == \
                    "self" and st.value.attr.startswith(("parameter_",
                                                         "valid_axes")):
                roots[st.targets[0].id] = f"self.{st.value.attr}"
        for c in ast.walk(f):
            if isinstance(c, ast.Call) and isinstance(
                    c.func, ast.Attribute) and c.func.attr in MUTATORS | {
                        "insert", "append", "extend", "remove", "sort",
                        "reverse"} and isinstance(
                    c.func.value, ast.Attribute) and isinstance(
                    c.func.value.value, ast.Name) and \
                    c.func.value.value.id == "self" and \
                    c.func.value.attr.startswith(("parameter_",
                                                  "valid_axes")):
                n += 1
                ctx.fail(c, f"{q}: {norm(c)[:50]}",
                         f"{q} edits the model's own "
                         f"`{c.func.value.attr}` in place")
        if not roots:
            continue
        amap = effects.alias_map(f, roots)
        for node, root, how in effects.mutations(f, amap):
            n += 1
            ctx.fail(node, f"{q}: {how[:60]}",
                     f"{q} edits the model's own list `{roots.get(root, root)}` "
                     f"in place ({how[:80]}): after one call the model's "
                     "declared keys contain entries that belong to the "
                     "common table - names/units are looked up at the "
                     "wrong index and computing the ancillaries raises "
                     "KeyError")
    if not n:
        ctx.ok(core.cls("NaniteFitModel"), "model methods leave the "
               "declared lists alone")


def r1_registry_writers(ctx):
    repo = ctx.repo
    logic = repo.mod("model.logic")
    reg_fn = logic.func("register_model")
    dereg_fn = logic.func("deregister_model")
    writers = []
    for m, q, f in repo.all_funcs():
        for n in walk_no_nested(f, include_self=False):
            if isinstance(n, ast.Subscript) and _is_registry(n.value, m) \
                    and isinstance(n.ctx, (ast.Store, ast.Del)):
                writers.append((m, q, f, n))
            elif isinstance(n, ast.Call) and isinstance(n.func, ast.Attribute)\
                    and n.func.attr in MUTATORS \
                    and _is_registry(n.func.value, m):
                writers.append((m, q, f, n))
            elif isinstance(n, (ast.Assign, ast.AugAssign)):
                tg = n.targets if isinstance(n, ast.Assign) else [n.target]
                for t in tg:
                    if _is_registry(t, m) and not (
                            isinstance(t, ast.Name) and REG not in
                            _globals(f)):
                        writers.append((m, q, f, n))
    # module-level writers (outside any function)
    for m in repo.modules.values():
        for st in m.tree.body:
            if isinstance(st, (ast.FunctionDef, ast.ClassDef,
                               ast.AsyncFunctionDef)):
                continue
            for n in walk_no_nested(st):
                if isinstance(n, ast.Subscript) and _is_registry(n.value, m) \
                        and isinstance(n.ctx, (ast.Store, ast.Del)):
                    writers.append((m, "<module>", None, n))
    _no_cached_readers(ctx)
    _model_tables_not_edited(ctx)
    ctx.floor("writers of models_available", len(writers), 2)
    for m, q, f, n in writers:
        if isinstance(n, (ast.Assign, ast.AugAssign)) and any(
                isinstance(t, ast.Name) for t in (
                    n.targets if isinstance(n, ast.Assign) else [n.target])):
            ctx.fail(n, f"registry re-bound: {norm(n)[:50]}",
                     f"{m.relpath}:{q} re-binds the name models_available "
                     "to a new dictionary: every module that imported the "
                     "registry (nanite.model, fit, indent, the CLI) keeps "
                     "the old object - later registrations are invisible "
                     "there and a deregistered key stays available")
            continue
        allowed = (m.name == "model.logic"
                   and q in ("register_model", "deregister_model"))
        ctx.check(allowed, n, f"writer {norm(n)}",
                  f"models_available is written outside register_model/"
                  f"deregister_model ({m.relpath}:{q}); the registry can then "
                  "hold entries that were never validated")
    # -- register_model: stored value validated, key is the model's key
    ctx.analysed(reg_fn)
    cfg = CFG(reg_fn)
    rd = reaching_defs(cfg)
    stores = [n for n in walk_no_nested(reg_fn, False)
              if isinstance(n, ast.Assign) and any(
                  isinstance(t, ast.Subscript) and _is_registry(t.value, logic)
                  for t in n.targets)]
    ctx.floor("registry store in register_model", len(stores), 1)
    for st in stores:
        node = cfg.node_of_stmt(st)
        tgt = [t for t in st.targets if isinstance(t, ast.Subscript)][0]
        ok_val, why = _validated(st.value, node, cfg, rd, reg_fn)
        ctx.check(ok_val, st, f"stored value {norm(st.value)}",
                  f"value stored in models_available is not provably a "
                  f"validated NaniteFitModel: {why}")
        key = tgt.slice
        kd = dotted(key) or ""
        ctx.check(kd.endswith(".model_key"), st, f"registry key {norm(key)}",
                  "model is not registered under its own model_key")
    # -- deregister_model: removes exactly model.model_key
    ctx.analysed(dereg_fn)
    muts = [n for n in walk_no_nested(dereg_fn, False)
            if (isinstance(n, ast.Call) and isinstance(n.func, ast.Attribute)
                and n.func.attr in MUTATORS
                and _is_registry(n.func.value, logic))
            or (isinstance(n, ast.Subscript) and isinstance(
                n.ctx, (ast.Del, ast.Store)) and _is_registry(n.value, logic))]
    ctx.floor("registry removal in deregister_model", len(muts), 1)
    params = [a.arg for a in dereg_fn.args.args]
    for n in muts:
        if isinstance(n, ast.Call):
            good = (n.func.attr == "pop" and len(n.args) >= 1
                    and dotted(n.args[0]) == f"{params[0]}.model_key")
        else:
            good = (isinstance(n.ctx, ast.Del)
                    and dotted(n.slice) == f"{params[0]}.model_key")
        ctx.check(good and len(muts) == 1, n, f"removal {norm(n)}",
                  "deregister_model must remove exactly the entry of the "
                  "given model's model_key and nothing else")


def _globals(f):
    out = set()
    if f is None:
        return out
    for n in walk_no_nested(f, False):
        if isinstance(n, ast.Global):
            out.update(n.names)
    return out


def _validated(value, node, cfg, rd, fn):
    """value is NaniteFitModel(...) or a name all of whose reaching defs are
    such a call or a parameter under isinstance(param, NaniteFitModel)."""
    if isinstance(value, ast.Call) and (call_name(value) or "").endswith(
            "NaniteFitModel"):
        return True, ""
    if not isinstance(value, ast.Name):
        return False, f"{norm(value)} is not a name or constructor call"
    defs = [d for (v, d) in rd.get(node.id, ()) if v == value.id]
    if not defs:
        return False, f"{value.id} has no reaching definition"
    for d in defs:
        dn = cfg.nodes[d]
        if dn.kind == "entry":
            return False, f"{value.id} may still be the raw argument"
        a = dn.ast
        if not isinstance(a, ast.Assign):
            return False, f"unrecognised definition {dn.text()}"
        v = a.value
        if isinstance(v, ast.Call) and (call_name(v) or "").endswith(
                "NaniteFitModel"):
            continue
        if isinstance(v, ast.Name):
            conds = conditions_at(a)
            want = f"isinstance({v.id}, NaniteFitModel)"
            if any(c.pol and c.text.replace("core.", "") == want
                   for c in conds):
                continue
            return False, (f"{value.id} = {v.id} is not guarded by "
                           f"isinstance({v.id}, NaniteFitModel)")
        return False, f"unrecognised definition {dn.text()}"
    return True, ""


# ---------------------------------------------------------------------------

def _module_attr_reads(cls):
    """(attr, node, method) for every `self.module.<attr>` load."""
    out = []
    for st in cls.body:
        if not isinstance(st, ast.FunctionDef):
            continue
        for n in ast.walk(st):
            if isinstance(n, ast.Attribute) and isinstance(n.ctx, ast.Load) \
                    and dotted(n.value) == "self.module":
                out.append((n.attr, n, st))
    return out


def _hasattr_key(test_text):
    pre = "hasattr(self.module, "
    if test_text.startswith(pre) and test_text.endswith(")"):
        inner = test_text[len(pre):-1]
        try:
            v = ast.literal_eval(inner)
        except Exception:
            return None
        return v if isinstance(v, str) else None
    return None


def _literal_list(expr, fn, mod=None):
    v = literal(expr)
    if isinstance(v, (list, tuple)) and all(isinstance(x, str) for x in v):
        return list(v)
    if isinstance(expr, ast.Name):
        for st in walk_no_nested(fn, False):
            if isinstance(st, ast.Assign) and norm(st.targets[0]) == expr.id:
                return _literal_list(st.value, fn, None)
        if mod is not None and expr.id in mod.assigns:
            return _literal_list(mod.assigns[expr.id][-1], fn, None)
    return None


def _required_lists(check_fn, mod=None):
    """Attribute sets whose absence leads to `raise ModelIncompleteError`.
    A collector list is filled with the names a for which
    `not hasattr(self.module, a)` (loop + append, unrolled appends, or a
    list comprehension) and a non-empty collector raises.  Returns
    (required, guarded) where guarded maps the attribute of an enclosing
    `hasattr(self.module, <attr>)` guard to the list it protects."""
    required, guarded = [], {}
    raises = [r for r in walk_no_nested(check_fn, False)
              if isinstance(r, ast.Raise) and "ModelIncompleteError" in
              norm(r)]
    from ..symres import Resolver
    Rc = Resolver(check_fn)
    for r in raises:
        conds = conditions_at(r)
        colls = []
        for a in conds:
            if a.pol and isinstance(a.node, ast.Name):
                colls.append(a.text)
                if hasattr(a.node, "_parent"):
                    rv = Rc.reaching_value(a.node)
                    while isinstance(rv, ast.Name):     # plain aliases
                        colls.append(rv.id)
                        rv = Rc.reaching_value(rv) if hasattr(
                            rv, "_parent") else None
        outer = [_hasattr_key(a.text) for a in conds if a.pol]
        outer = [h for h in outer if h]
        attrs = []
        for coll in colls:
            for n in walk_no_nested(check_fn, False):
                # collector.append(x)
                if isinstance(n, ast.Call) and isinstance(
                        n.func, ast.Attribute) and n.func.attr == "append" \
                        and norm(n.func.value) == coll and n.args:
                    x = n.args[0]
                    cs = conditions_at(n)
                    if isinstance(x, ast.Constant) and isinstance(
                            x.value, str):
                        if any((not a.pol) and _hasattr_key(a.text) ==
                               x.value for a in cs):
                            attrs.append(x.value)
                    elif isinstance(x, ast.Name):
                        loop = n
                        while loop is not None and not (
                                isinstance(loop, ast.For) and norm(
                                    loop.target) == x.id):
                            loop = getattr(loop, "_parent", None)
                        if loop is not None and any(
                                (not a.pol) and a.text ==
                                f"hasattr(self.module, {x.id})" for a in cs):
                            lst = _literal_list(loop.iter, check_fn, mod)
                            if lst:
                                attrs.extend(lst)
                # collector = [a for a in L if not hasattr(self.module, a)]
                if isinstance(n, ast.Assign) and norm(n.targets[0]) == coll \
                        and isinstance(n.value, ast.ListComp) and len(
                            n.value.generators) == 1:
                    g = n.value.generators[0]
                    var = norm(g.target)
                    if norm(n.value.elt) == var and any(
                            norm(c) == f"not hasattr(self.module, {var})"
                            for c in g.ifs):
                        lst = _literal_list(g.iter, check_fn, mod)
                        if lst:
                            attrs.extend(lst)
        if outer:
            guarded.setdefault(outer[0], []).extend(attrs)
        else:
            required.extend(attrs)
    return required, guarded


def r2_required_attributes(ctx):
    core = ctx.repo.mod("model.core")
    cls = core.cls("NaniteFitModel")
    meths = core.methods("NaniteFitModel")
    for nm in ("__init__", "_module_check", "_module_autocomplete"):
        if nm not in meths:
            raise AnchorError(f"NaniteFitModel.{nm} not found")
    check_fn = meths["_module_check"]
    auto_fn = meths["_module_autocomplete"]
    init_fn = meths["__init__"]
    for f in (check_fn, auto_fn, init_fn):
        ctx.analysed(f)
    required, guarded = _required_lists(check_fn, core)
    ctx.floor("required attributes in _module_check", len(required), 5)
    # attributes auto-completed when absent
    auto = set()
    cond_auto = {}
    for n in walk_no_nested(auto_fn, False):
        if isinstance(n, ast.Assign):
            for t in n.targets:
                if isinstance(t, ast.Attribute) and dotted(t.value) == \
                        "self.module":
                    conds = conditions_at(n)
                    if not any((not c.pol) and _hasattr_key(c.text) == t.attr
                               for c in conds):
                        continue
                    # the completion must depend on nothing but the absence
                    # of this very attribute
                    extra = [c for c in conds
                             if _hasattr_key(c.text) != t.attr]
                    foreign = [c for c in extra if _hasattr_key(c.text)]
                    if foreign:
                        cond_auto[t.attr] = (n, foreign)
                        continue
                    if extra:
                        raise Undecided(
                            f"completion of module.{t.attr} depends on "
                            f"{[repr(c) for c in extra]}")
                    auto.add(t.attr)
    for attr, (n, foreign) in sorted(cond_auto.items()):
        if attr not in auto:
            ctx.fail(n, f"default for module.{attr} supplied when absent",
                     f"the default '{attr}' wrapper is only supplied when "
                     f"{' and '.join(repr(c) for c in foreign)}: a model "
                     f"that lacks '{attr}' but not the other attribute "
                     f"cannot be registered (AttributeError)")
    # has_module_ancillaries is True only under hasattr(compute_ancillaries)
    flag_ok = True
    for n in ast.walk(cls):
        if isinstance(n, ast.Assign) and any(
                dotted(t) == "self.has_module_ancillaries"
                for t in n.targets):
            if isinstance(n.value, ast.Constant) and n.value.value is True:
                conds = conditions_at(n)
                if not any(c.pol and _hasattr_key(c.text) ==
                           "compute_ancillaries" for c in conds):
                    flag_ok = False
            elif _hasattr_key(norm(n.value)) == "compute_ancillaries" or (
                    isinstance(n.value, ast.Call) and norm(
                        n.value.func) == "bool" and len(
                        n.value.args) == 1 and _hasattr_key(norm(
                            n.value.args[0])) == "compute_ancillaries"):
                pass    # the flag is the hasattr() result itself
            elif not (isinstance(n.value, ast.Constant)
                      and n.value.value is False):
                flag_ok = False
    anc_ok = set(guarded.get("compute_ancillaries", [])) | {
        "compute_ancillaries"}
    reads = _module_attr_reads(cls)
    ctx.floor("self.module attribute reads", len(reads), 10)
    seen = set()
    for attr, node, meth in reads:
        conds = conditions_at(node)
        hk = {_hasattr_key(c.text) for c in conds if c.pol}
        under_flag = any(c.pol and c.text == "self.has_module_ancillaries"
                         for c in conds)
        ok = False
        why = ""
        if attr in required:
            # inside _module_check the read must come after the raise
            ok = True
            if meth is check_fn:
                ok = _after_required_raise(node, check_fn)
                why = "read before the completeness test"
        elif attr in hk:
            ok = True
        elif attr in anc_ok and ("compute_ancillaries" in hk or (
                under_flag and flag_ok)):
            ok = True
        elif attr in (auto | set(cond_auto)) and meth is not check_fn \
                and meth is not auto_fn:
            ok = True   # a conditional completion is reported above
        if not ok and attr in guarded.get(next(iter(hk), None) or "", []):
            ok = True
        key = (attr, meth.name, ok)
        if key in seen:
            continue
        seen.add(key)
        ctx.check(ok, node, f"self.module.{attr} in {meth.name}",
                  f"NaniteFitModel reads module attribute '{attr}' that is "
                  f"neither in the required list of _module_check, nor "
                  f"auto-completed, nor hasattr-guarded {why}: a module "
                  f"lacking it raises AttributeError instead of a model "
                  f"error")
    # order in __init__: check, then autocomplete, then propagation
    cfg = CFG(init_fn)
    chk = [n for n in cfg.nodes if n.kind == "stmt" and any(
        call_name(c) == "self._module_check" for c in calls_in(n.ast))]
    aut = [n for n in cfg.nodes if n.kind == "stmt" and any(
        call_name(c) == "self._module_autocomplete" for c in calls_in(n.ast))]
    if not chk:
        ctx.fail(init_fn, "self._module_check()",
                 "NaniteFitModel.__init__ never calls _module_check")
        return
    first_reads = [cfg.node_containing(n) for a, n, m in reads
                   if m is init_fn]
    first_reads = [n for n in first_reads if n is not None]
    good = all(cfg.dominates(chk[0].id, n.id) for n in first_reads + aut)
    ctx.check(good, chk[0].ast, "self._module_check() dominates all reads",
              "an attribute of the module is read (or auto-completed) "
              "before _module_check validated the module")


def _after_required_raise(node, check_fn):
    """In _module_check: the read must be dominated by the `if missing:
    raise` that follows the required-attribute loop."""
    cfg = CFG(check_fn)
    target = cfg.node_containing(node)
    if target is None:
        return False
    raises = [n for n in cfg.nodes if n.kind == "stmt"
              and isinstance(n.ast, ast.Raise)
              and "ModelIncompleteError" in norm(n.ast)
              and not any(_hasattr_key(c.text) for c in conditions_at(n.ast)
                          if c.pol)]
    if not raises:
        return False
    # the test guarding the first such raise dominates the read
    test = [p for (p, lab) in cfg.pred[raises[0].id]]
    tests = [n for n in cfg.nodes if n.kind == "test"
             and cfg.dominates(n.id, raises[0].id)]
    if not tests:
        return False
    guard = tests[-1]
    # a read inside the failing branch itself (e.g. in the error message)
    # happens exactly when an attribute is missing
    par = getattr(raises[0].ast, "_parent", None)
    if isinstance(par, ast.If) and any(node is x for st in par.body
                                       for x in ast.walk(st)):
        return False
    return cfg.dominates(guard.id, target.id) and guard.id != target.id


# ---------------------------------------------------------------------------

def r3_import_failure_path(ctx):
    logic = ctx.repo.mod("model.logic")
    fn = logic.func("load_model_from_file")
    ctx.analysed(fn)
    if not any(isinstance(n, ast.Try) for n in walk_no_nested(fn, False)):
        # the import proper sits in a private worker: judge it there
        for c in calls_in(fn):
            if isinstance(c.func, ast.Name) and c.func.id.startswith("_") \
                    and c.func.id in logic.funcs and any(
                        isinstance(n, ast.Try) for n in walk_no_nested(
                            logic.funcs[c.func.id], False)):
                fn = logic.funcs[c.func.id]
                ctx.analysed(fn)
                break
    cfg = CFG(fn)
    # (a) definite assignment on every path, incl. through finally
    pu = possibly_unbound(cfg)
    seen = set()
    n_uses = 0
    from ..dataflow import node_uses
    for n in cfg.nodes:
        n_uses += len(node_uses(n))
    for use, node in pu:
        key = (use.id, node.copy)
        if key in seen:
            continue
        seen.add(key)
        how = {"exc": " on the exceptional path through `finally`",
               "ret": " on the return path through `finally`"}.get(
                   node.copy, "")
        ctx.fail(use, f"use of {use.id}: {node.text()}",
                 f"local '{use.id}' may be unbound{how}: an import failure "
                 f"surfaces as UnboundLocalError instead of the documented "
                 f"ModelImportError")
    if not pu:
        ctx.ok(fn, "all local reads definitely assigned",
               f"{n_uses} name reads, none possibly unbound")
    # (b) finally blocks must not return/raise (would replace the error)
    tries = [n for n in walk_no_nested(fn, False) if isinstance(n, ast.Try)]
    ctx.floor("try statements in load_model_from_file", len(tries), 1)
    handler_raises = False
    for t in tries:
        for st in t.finalbody:
            for x in walk_no_nested(st):
                if isinstance(x, (ast.Return, ast.Break, ast.Continue)):
                    ctx.fail(x, f"{norm(x).splitlines()[0]} inside finally",
                             "a return inside `finally` discards the "
                             "in-flight ModelImportError")
        for h in t.handlers:
            for x in walk_no_nested(h):
                if isinstance(x, ast.Raise) and x.exc is not None \
                        and "ModelImportError" in norm(x.exc):
                    handler_raises = True
                    caught = norm(h.type) if h.type is not None else "all"
                    ctx.check(caught in ("ModuleNotFoundError", "ImportError",
                                         "(ModuleNotFoundError, ImportError)",
                                         "(ImportError, ModuleNotFoundError)",
                                         "all", "Exception", "BaseException"),
                              h, f"except {caught} -> ModelImportError",
                              "handler does not cover import failures")
            # every way out of the handler is the documented error
            other = [x for x in walk_no_nested(h) if isinstance(x, ast.Raise)
                     and (x.exc is None or "ModelImportError" not in
                          norm(x.exc))]
            for x in other:
                ctx.fail(x, f"handler re-raises {norm(x)[:40]}",
                         "the import-failure handler lets the original "
                         "exception escape on some path (e.g. a missing "
                         "dependency of the model file) instead of raising "
                         "the documented ModelImportError")

    ctx.check(handler_raises, fn, "handler raises ModelImportError",
              "no handler converts an import failure into ModelImportError")
    # (c) pairing: sys.path.insert(.., X) ... sys.path.remove(X) on all exits
    ins = [n for n in cfg.nodes if n.kind == "stmt" and n.copy == "" and any(
        call_name(c) == "sys.path.insert" for c in calls_in(n.ast))]
    ctx.floor("sys.path.insert", len(ins), 1)
    for i in ins:
        call = [c for c in calls_in(i.ast)
                if call_name(c) == "sys.path.insert"][0]
        what = norm(call.args[1]) if len(call.args) > 1 else "?"
        rem = [n.id for n in cfg.nodes if n.kind == "stmt" and any(
            call_name(c) == "sys.path.remove" and c.args
            and norm(c.args[0]) == what for c in calls_in(n.ast))]
        # leave the insert node only along non-exceptional edges (if the
        # insert itself raises, nothing was inserted)
        r = cfg.reach([i.id], avoid=rem, via_first=(None,),
                      edge_ok=cfg.no_cleanup_exc)
        bad = r & {cfg.exit, cfg.rexit}
        ctx.check(not bad, i.ast, f"sys.path.insert(.., {what}) paired",
                  "a path leaves load_model_from_file after sys.path.insert "
                  f"without sys.path.remove({what}): the interpreter's import "
                  "path is not restored")
    sets = [n for n in cfg.nodes if n.kind == "stmt" and n.copy == ""
            and isinstance(n.ast, ast.Assign)
            and any(dotted(t) == "sys.dont_write_bytecode"
                    for t in n.ast.targets)
            and isinstance(n.ast.value, ast.Constant)
            and n.ast.value.value is True]
    for s in sets:
        unset = [n.id for n in cfg.nodes if n.kind == "stmt"
                 and isinstance(n.ast, ast.Assign)
                 and any(dotted(t) == "sys.dont_write_bytecode"
                         for t in n.ast.targets)
                 and not (isinstance(n.ast.value, ast.Constant)
                          and n.ast.value.value is True)]
        r = cfg.reach([s.id], avoid=unset, via_first=(None,),
                      edge_ok=cfg.no_cleanup_exc)
        ctx.check(not (r & {cfg.exit, cfg.rexit}), s.ast,
                  "sys.dont_write_bytecode restored",
                  "sys.dont_write_bytecode stays True on some exit")
    # (d) the returned object is a validated model
    rets = [n for n in walk_no_nested(fn, False) if isinstance(n, ast.Return)]
    for r_ in rets:
        if r_.value is None:
            ctx.fail(r_, "return", "returns None instead of the model")
    # register only when asked
    for c in calls_in(fn):
        if call_name(c) == "register_model":
            conds = conditions_at(c)
            ctx.check(any(a.pol and a.text == "register" for a in conds), c,
                      "register_model guarded by `register`",
                      "file model is registered even when register=False")


# ---------------------------------------------------------------------------

def r4_ancillary_seeding(ctx):
    from ..symres import Resolver as _Rs2
    from ..guards import from_early_exit
    fit = ctx.repo.mod("fit")
    fn = fit.func("guess_initial_parameters")
    ctx.analysed(fn)
    sets = []
    for c in calls_in(fn):
        if isinstance(c.func, ast.Attribute) and c.func.attr == "set":
            tgt = c.func.value
            if isinstance(tgt, ast.Subscript) and dotted(tgt.value) == \
                    "params" and const_str(tgt.slice) is None:
                sets.append(c)
    ctx.floor("ancillary parameter seeding calls", len(sets), 1)
    for c in sets:
        key = norm(c.func.value.slice)
        val = kwarg(c, "value") or (c.args[0] if c.args else None)
        # enclosing loop over the ancillary dictionary
        loop = c
        while loop is not None and not isinstance(loop, ast.For):
            loop = getattr(loop, "_parent", None)
        if loop is None:
            raise Undecided("ancillary seeding is not inside a for loop")
        vtxt = norm(val)
        from_anc = False
        # a local holding the looked-up value is followed to its definition
        val_def = val
        if isinstance(val, ast.Name) and hasattr(val, "_parent"):
            from ..symres import Resolver as _Rs
            rv_ = _Rs(fn).reaching_value(val)
            if rv_ is not None:
                val_def = rv_
        if isinstance(val_def, ast.Subscript) and norm(
                val_def.slice) == key:
            from_anc = True
        elif isinstance(loop.target, ast.Tuple) and len(
                loop.target.elts) == 2 and isinstance(loop.iter, ast.Call) \
                and isinstance(loop.iter.func, ast.Attribute) \
                and loop.iter.func.attr == "items" \
                and norm(loop.target.elts[0]) == key \
                and norm(loop.target.elts[1]) == vtxt:
            from_anc = True
        conds = conditions_at(c, stop=loop)
        member = [a for a in conds if a.pol and a.text == f"{key} in params"]
        vdef = norm(val_def)
        nan = [a for a in conds if (not a.pol) and a.text in (
            f"np.isnan({vtxt})", f"numpy.isnan({vtxt})",
            f"math.isnan({vtxt})", f"np.isnan({vdef})",
            f"numpy.isnan({vdef})", f"math.isnan({vdef})")]
        extra = [a for a in conds if a not in member and a not in nan]
        ctx.check(bool(member), c, f"{norm(c)} guarded by membership",
                  f"ancillary '{key}' seeds a parameter without testing "
                  f"`{key} in params`")
        ctx.check(bool(nan), c, f"{norm(c)} guarded by NaN test",
                  "a NaN ancillary value overwrites the parameter's initial "
                  "value")
        ctx.check(from_anc, c, f"{norm(c)} takes the ancillary of the same "
                  "key", "parameter seeded from a different ancillary key")
        ctx.check(not extra, c, f"{norm(c)} under no further condition",
                  "a non-NaN ancillary whose key matches a fit parameter is "
                  "not used as initial value when "
                  + " / ".join(repr(a) for a in extra)
                  + " fails (e.g. a value of exactly 0)")
        # the seeding loop itself runs whenever ancillaries are requested
        # for a dataset: common ancillaries exist for every model
        outer = list(conditions_at(loop))
        allowed = ("model_ancillaries", "idnt is not None", "idnt",
                   "have_data")
        odd = [a for a in outer if not ((a.pol and (
            a.text in allowed or _Rs2(fn).text(a.node) in allowed))
            or ((not a.pol) and a.text == "idnt is None"))]
        ctx.check(not odd, loop, "seeding runs for every model when "
                  "requested",
                  "the ancillary seeding of the initial parameters is "
                  "skipped when " + " / ".join(
                      ("not " if a.pol else "") + a.text for a in odd)
                  + ": ancillaries common to all models (e.g. max_indent) "
                  "no longer seed a fit parameter of the same name")
    # no way out of the function in front of the seeding, except when the
    # seeding would not run anyway
    loops_ = []
    for c in sets:
        lp_ = c
        while lp_ is not None and not isinstance(lp_, ast.For):
            lp_ = getattr(lp_, "_parent", None)
        if lp_ is not None and lp_ not in loops_:
            loops_.append(lp_)
    def chain_(n_):
        out = [n_]
        while getattr(out[-1], "_parent", None) is not None and \
                out[-1] is not fn:
            out.append(out[-1]._parent)
        return out[::-1]

    def precedes(a_, b_):
        """statement a_ comes before b_ in program order (structurally:
        position in the innermost block both are nested in)"""
        ca, cb = chain_(a_), chain_(b_)
        k = 0
        while k < min(len(ca), len(cb)) and ca[k] is cb[k]:
            k += 1
        if k == 0 or k >= len(ca) or k >= len(cb):
            return False
        par = ca[k - 1]
        for fld in ("body", "orelse", "finalbody", "handlers"):
            blk = getattr(par, fld, None)
            if isinstance(blk, list) and any(x is ca[k] for x in blk) and \
                    any(x is cb[k] for x in blk):
                ia = [i for i, x in enumerate(blk) if x is ca[k]][0]
                ib = [i for i, x in enumerate(blk) if x is cb[k]][0]
                return ia < ib
        return False
    for r in walk_no_nested(fn, False):
        if not isinstance(r, ast.Return) or not loops_ or not all(
                precedes(r, lp_) for lp_ in loops_):
            continue
        cs = conditions_at(r)
        off = any((a.pol and a.text == "idnt is None") or (
            (not a.pol) and a.text in ("model_ancillaries",
                                       "idnt is not None", "idnt"))
            for a in cs)
        ctx.check(off, r, "early return only when no ancillaries are "
                  "requested",
                  "guess_initial_parameters returns before the ancillary "
                  "seeding when " + " and ".join(repr(a) for a in cs)[:120]
                  + ": the model's ancillary values (key equal to a fit "
                  "parameter) then do not seed the initial parameters "
                  "although they were requested")
    # the ancillary value is the last word: nothing assigns a parameter's
    # value after the seeding loop (a built-in guess placed behind it would
    # overwrite the ancillary of the same name)
    for n in walk_no_nested(fn, False):
        later = None
        if isinstance(n, ast.Call) and isinstance(
                n.func, ast.Attribute) and n.func.attr == "set" and \
                isinstance(n.func.value, ast.Subscript) and dotted(
                    n.func.value.value) == "params" and n not in sets:
            later = n
        elif isinstance(n, (ast.Assign, ast.AugAssign)):
            for t_ in (n.targets if isinstance(n, ast.Assign)
                       else [n.target]):
                if isinstance(t_, ast.Attribute) and t_.attr == "value" \
                        and isinstance(t_.value, ast.Subscript) and dotted(
                            t_.value.value) == "params":
                    later = n
        if later is None or not loops_:
            continue
        st_ = later
        while not isinstance(st_, ast.stmt):
            st_ = st_._parent
        if any(precedes(lp_, st_) for lp_ in loops_):
            key_ = norm(later.func.value.slice if isinstance(
                later, ast.Call) else later)[:40]
            ctx.fail(later, f"{key_} assigned after the ancillary seeding",
                     "guess_initial_parameters assigns the parameter "
                     f"{key_} after the ancillary seeding: an ancillary "
                     "value of the same name no longer seeds the initial "
                     "parameter (it is overwritten by the built-in guess)")
    # the loop must be reachable with the default arguments: not disabled
    core = ctx.repo.mod("model.core")
    gk = core.methods("NaniteFitModel").get("get_anc_parm_keys")
    if gk is None:
        raise AnchorError("NaniteFitModel.get_anc_parm_keys missing")
    ctx.analysed(gk)
    txt = norm(gk)
    uses_common = "ANCILLARY_COMMON" in txt
    uses_own = "self.parameter_anc_keys" in txt
    ctx.check(uses_common and uses_own, gk,
              "get_anc_parm_keys = common + own",
              "get_anc_parm_keys no longer returns the common plus the "
              "model's own ancillary keys")
    own = [n for n in ast.walk(gk) if isinstance(n, ast.Attribute)
           and dotted(n) == "self.parameter_anc_keys"]
    for n in own:
        conds = conditions_at(n)
        ctx.check(any(a.pol and a.text == "self.has_module_ancillaries"
                      for a in conds), n,
                  "own ancillary keys only when the module has them",
                  "parameter_anc_keys read for a model without ancillaries")
    # compute_ancillaries: common first then the module's, keyed identically
    ca = core.methods("NaniteFitModel").get("compute_ancillaries")
    if ca is None:
        raise AnchorError("NaniteFitModel.compute_ancillaries missing")
    ctx.analysed(ca)
    stores = [n for n in ast.walk(ca) if isinstance(n, ast.Assign)
              and isinstance(n.targets[0], ast.Subscript)]
    for s in stores:
        t = s.targets[0]
        k = norm(t.slice)
        v = s.value
        good = True
        if isinstance(v, ast.Subscript):
            good = norm(v.slice) == k
        ctx.check(good, s, f"ancillary store {norm(s)}",
                  "ancillary value stored under a different key than it was "
                  "computed for")


def r5_check_raises_model_errors(ctx):
    """Every raise in _module_check is a ModelError subclass; each
    consistency test (lengths, uniqueness, order) leads to a raise."""
    core = ctx.repo.mod("model.core")
    check_fn = core.methods("NaniteFitModel")["_module_check"]
    # ModelError hierarchy
    sub = set()
    for name, c in core.classes.items():
        bases = [dotted(b) for b in c.bases]
        if name == "ModelError" or any(b in sub or b == "ModelError"
                                       for b in bases):
            sub.add(name)
    changed = True
    while changed:
        changed = False
        for name, c in core.classes.items():
            if name not in sub and any(dotted(b) in sub for b in c.bases):
                sub.add(name)
                changed = True
    raises = [n for n in walk_no_nested(check_fn, False)
              if isinstance(n, ast.Raise)]
    ctx.floor("raises in _module_check", len(raises), 4)
    for r in raises:
        cn = call_name(r.exc) if isinstance(r.exc, ast.Call) else dotted(
            r.exc)
        ctx.check(cn in sub, r, f"raise {cn}",
                  f"_module_check raises {cn}, which is not a model error")
    # the documented consistency tests exist and guard a raise
    wanted = {
        "names length": ("len(self.module.parameter_keys)",
                         "len(self.module.parameter_names)"),
        "units length": ("len(self.module.parameter_keys)",
                         "len(self.module.parameter_units)"),
        "unique names": ("len(self.module.parameter_names)",
                         "len(set(self.module.parameter_names))"),
    }
    tests = [n for n in walk_no_nested(check_fn, False)
             if isinstance(n, ast.If)]
    from ..symres import Resolver
    Rk = Resolver(check_fn)

    def side(e):
        return Rk.text(e).replace("frozenset(", "set(")
    for label, (a, b) in wanted.items():
        found = False
        for t in tests:
            tt = t.test
            if not (isinstance(tt, ast.Compare) and len(tt.ops) == 1
                    and any(isinstance(x, ast.Raise) for x in t.body)):
                continue
            l_, r_ = side(tt.left), side(tt.comparators[0])
            if isinstance(tt.ops[0], ast.NotEq) and {l_, r_} == {a, b}:
                found = True
            # (a set is never longer than the sequence it was built from)
            if label == "unique names" and (
                    (isinstance(tt.ops[0], ast.Lt) and (l_, r_) == (b, a))
                    or (isinstance(tt.ops[0], ast.Gt)
                        and (l_, r_) == (a, b))):
                found = True
        ctx.check(found, check_fn, f"consistency test: {label}",
                  f"_module_check no longer rejects a module with mismatched "
                  f"{label} (expected `{a} != {b}` guarding a raise)")
    # order test: key != p_def[ii] raises
    order = False
    order_if = None
    for t in tests:
        tt = t.test
        if isinstance(tt, ast.Compare) and isinstance(tt.ops[0], ast.NotEq) \
                and any(isinstance(x, ast.Raise) for x in t.body):
            txt = {norm(tt.left), norm(tt.comparators[0])}
            if any(x.startswith("p_def[") for x in txt) and "key" in txt:
                order = True
                order_if = t
    if order_if is not None:
        # ... for every parameter: the loop around the test is never left
        # early and no iteration skips the test
        lp = getattr(order_if, "_parent", None)
        while lp is not None and not isinstance(lp, (ast.For, ast.While)):
            lp = getattr(lp, "_parent", None)
        if lp is None:
            raise Undecided("the order test of _module_check is not in a "
                            "loop over the parameters")

        def own(node):
            """statements of lp's body outside nested loops/functions"""
            stack = list(lp.body)
            while stack:
                n = stack.pop()
                yield n
                if isinstance(n, (ast.For, ast.While, ast.FunctionDef,
                                  ast.Lambda)):
                    continue
                stack.extend(ast.iter_child_nodes(n))
        early = [n for n in own(lp) if isinstance(n, (ast.Break,
                                                     ast.Return))]
        ctx.check(not early, early[0] if early else lp,
                  "the parameter loop of _module_check is never left early",
                  "the loop that compares parameter_keys with the defaults "
                  "is left early (break/return): parameters after that "
                  "point are not checked, so defaults out of order are "
                  "accepted and registered")
        cfg = CFG(check_fn)
        tn = cfg.node_containing(order_if.test)
        head = cfg.node_of_stmt(lp)
        skip = False
        if tn is not None and head is not None:
            body_ids = {n.id for n in cfg.nodes if n.ast is not None and any(
                x is n.ast for s in lp.body for x in ast.walk(s))}
            for n in cfg.nodes:
                if n.id in body_ids and any(t_ == head.id
                                            for t_, lab in cfg.succ[n.id]
                                            if lab != "exc"):
                    if not cfg.dominates(tn.id, n.id) and n.id != tn.id:
                        skip = True
        ctx.check(not skip, order_if, "every iteration reaches the order "
                  "test",
                  "an iteration of the parameter loop can continue without "
                  "the order test (continue before the test)")
    ctx.check(order, check_fn, "consistency test: defaults in key order",
              "_module_check no longer rejects defaults that are out of "
              "order with parameter_keys")


def r6_ancillary_keys_agree(ctx):
    """compute_ancillaries returns exactly the keys get_anc_parm_keys
    announces: the common table and, for models with their own recipe, the
    declared parameter_anc_keys - nothing a model's recipe returns on top
    (an undeclared value named like a fit parameter would silently seed
    it)."""
    core = ctx.repo.mod("model.core")
    fn = core.func("NaniteFitModel.compute_ancillaries")
    ctx.analysed(fn)
    rets = [r for r in walk_no_nested(fn, False) if isinstance(r, ast.Return)]
    if not rets or not all(isinstance(r.value, ast.Name) for r in rets) or \
            len({r.value.id for r in rets}) != 1:
        raise Undecided("compute_ancillaries does not return a named dict")
    D = rets[0].value.id
    n = 0
    for node in walk_no_nested(fn, False):
        if isinstance(node, ast.Call) and isinstance(
                node.func, ast.Attribute) and isinstance(
                node.func.value, ast.Name) and node.func.value.id == D \
                and node.func.attr in ("update", "setdefault", "pop",
                                       "__setitem__", "clear"):
            n += 1
            ctx.fail(node, f"{D}.{node.func.attr}(...)",
                     "compute_ancillaries copies whatever the model's "
                     "recipe returns instead of the declared "
                     "parameter_anc_keys: undeclared keys appear among the "
                     "ancillaries (without name and unit) and one named "
                     "like a fit parameter seeds that parameter")
        if isinstance(node, ast.Assign):
            for t in node.targets:
                if not (isinstance(t, ast.Subscript) and isinstance(
                        t.value, ast.Name) and t.value.id == D):
                    continue
                n += 1
                k = t.slice
                lp = getattr(node, "_parent", None)
                while lp is not None and not isinstance(lp, ast.For):
                    lp = getattr(lp, "_parent", None)
                src = None
                if lp is not None and isinstance(k, ast.Name) and \
                        isinstance(lp.target, ast.Name) and \
                        lp.target.id == k.id:
                    src = norm(lp.iter)
                ok_common = src in ("ANCILLARY_COMMON",
                                    "ANCILLARY_COMMON.keys()",
                                    "list(ANCILLARY_COMMON)",
                                    "list(ANCILLARY_COMMON.keys())")
                ok_own = src == "self.parameter_anc_keys" and any(
                    c.pol and c.text == "self.has_module_ancillaries"
                    for c in conditions_at(node))
                ctx.check(ok_common or ok_own, node,
                          f"ancillary key from {src}",
                          f"compute_ancillaries stores key "
                          f"`{norm(k)[:30]}` taken from `{src}`: the result "
                          "no longer has exactly the common keys plus the "
                          "declared parameter_anc_keys")
    ctx.floor("ancillary stores in compute_ancillaries", n, 2)
    gk = core.func("NaniteFitModel.get_anc_parm_keys")
    txt = " ".join(norm(st) for st in gk.body)
    ctx.check("ANCILLARY_COMMON" in txt and "self.parameter_anc_keys" in txt,
              gk, "get_anc_parm_keys = common + declared keys",
              "get_anc_parm_keys no longer lists the common keys plus the "
              "declared parameter_anc_keys")


def r7_parameter_precedence(ctx):
    """A key that names both a fit parameter and an ancillary (the
    documented seeding idiom) is reported with the fit parameter's name and
    unit: the parameter tables are consulted first / merged last."""
    core = ctx.repo.mod("model.core")
    for meth, table in (("get_parm_name", "parameter_names"),
                        ("get_parm_unit", "parameter_units")):
        fn = core.func(f"NaniteFitModel.{meth}")
        ctx.analysed(fn)
        body = [s_ for s_ in fn.body if not (isinstance(s_, ast.Expr)
                                             and isinstance(s_.value,
                                                            ast.Constant))]
        first_if = next((s_ for s_ in body if isinstance(s_, ast.If)), None)
        updates = [c for c in calls_in(fn) if isinstance(
            c.func, ast.Attribute) and c.func.attr == "update"]
        merges = [n for n in walk_no_nested(fn, False)
                  if isinstance(n, ast.Dict) and any(k is None
                                                     for k in n.keys)]
        if updates or merges:
            srcs = [norm(c.args[0]) if c.args else "" for c in updates]
            last = srcs[-1] if srcs else ""
            ctx.check("self.parameter_keys" in last and table in last,
                      updates[-1] if updates else merges[0],
                      f"{meth}: fit parameters merged last",
                      f"{meth} merges the lookup tables in an order in which "
                      f"`{last[:50]}` wins: for a key that is both a fit "
                      "parameter and an ancillary the ancillary's label is "
                      "returned instead of the documented parameter "
                      f"{'name' if 'name' in meth else 'unit'}")
            continue
        if first_if is None:
            raise Undecided(f"{meth}: lookup order not understood")
        ctx.check("self.parameter_keys" in norm(first_if.test), first_if,
                  f"{meth}: fit parameters looked up first",
                  f"{meth} consults `{norm(first_if.test)[:50]}` before the "
                  "fit parameters: for a key that is both a fit parameter "
                  "and an ancillary the ancillary's label is returned")


RULES = [
    ("C18-R1", "registry written only by register/deregister; stored value "
     "validated; keyed by model_key", r1_registry_writers),
    ("C18-R2", "every module attribute read is required, auto-completed or "
     "guarded; check runs first", r2_required_attributes),
    ("C18-R3", "import failure path: definite assignment, finally shape, "
     "sys.path/bytecode pairing", r3_import_failure_path),
    ("C18-R4", "ancillary seeding guarded by membership and NaN test; "
     "ancillary key lists", r4_ancillary_seeding),
    ("C18-R5", "_module_check raises only model errors and keeps its "
     "consistency tests", r5_check_raises_model_errors),
    ("C18-R6", "computed ancillaries have exactly the announced keys",
     r6_ancillary_keys_agree),
    ("C18-R7", "fit parameters take precedence over ancillaries of the "
     "same key in names and units", r7_parameter_precedence),
]
