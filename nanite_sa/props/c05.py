"""C05 — exactly the requested points are fitted."""
from __future__ import annotations

import ast

from .. import fitclauses, fitrules
from ..astutil import call_name, dotted, norm, walk_no_nested
from ..guards import conditions_at

EXPLANATION = (
    "Mask algebra and dataflow on IndentationFitter.fit / _fit / "
    "compute_emodulus_vs_mindelta, for every curve and interval: (R1) the "
    "absolute-range mask is a fresh copy of the segment mask from which "
    "points strictly below min(range) and strictly above max(range) of the "
    "unscaled abscissa are removed (closed, order independent); a "
    "zero-width range selects the segment mask; (R2) optimiser abscissa and "
    "ordinate use that mask and xmin/xmax are its extremes converted back "
    "to measured units; (R3) relative-cp passes anchor the requested "
    "interval at the fitted contact point after a whole-segment first "
    "pass; (R4) the plateau scan uses a linspace of the requested number "
    "of samples between two same-signed multiples of the deepest point in "
    "measured units, stores one modulus per depth, the selected depth is an "
    "element/average of the grid and is the lower bound of the final fit; "
    "(R5) settings that determine range and scan invalidate cached results "
    "when changed; (R6) the fitter restores its scratch range between "
    "passes.")
NOT_DECIDED = [
    "which plateau is selected (numerical filter/binning in "
    "compute_opt_mindelta)",
    "convergence of the relative-cp iteration ('at convergence [cp+a, "
    "cp+b]')",
]


def r5_invalidation(ctx):
    fitrules.setitem_invalidation(ctx)


def r6_restore(ctx):
    from .c03 import r6_fitter_restores
    r6_fitter_restores(ctx)


def r7_dont_care_agreement(ctx):
    fitclauses.clause_upper_bound_agreement(ctx, "setitem")


def r9_scratch_is_the_request(ctx):
    """The fitter works on scratch copies of three settings (range, range
    type, plateau switch).  Outside fit() - which restores what it changes
    (R6) - they are written only in the constructor, and only as a copy of
    the setting of the same name: anything else (clipped, sorted, widened
    bounds) makes the fit use an interval other than the requested one."""
    from .c03 import FITTER_SCRATCH
    fitm = ctx.repo.mod("fit")
    n = 0
    for q, f in fitm.funcs.items():
        if not q.startswith("IndentationFitter.") or q.count(".") != 1:
            continue
        meth = q.split(".")[1]
        if meth != "__init__":
            # fit() restores what it changes (R6); the scan sets its own
            # lower bounds on purpose (R4)
            continue
        for st in walk_no_nested(f, False):
            tg = []
            if isinstance(st, ast.Assign):
                tg = st.targets
            elif isinstance(st, (ast.AugAssign, ast.AnnAssign)):
                tg = [st.target]
            for t in tg:
                for attr in FITTER_SCRATCH:
                    hit = dotted(t) == f"self.{attr}" or (
                        isinstance(t, ast.Subscript)
                        and dotted(t.value) == f"self.{attr}")
                    if not hit:
                        continue
                    n += 1
                    v = getattr(st, "value", None)
                    while isinstance(v, ast.Call) and call_name(v) in (
                            "list", "tuple", "copy.copy", "copy.deepcopy") \
                            and len(v.args) == 1:
                        v = v.args[0]
                    ok = meth == "__init__" and isinstance(
                        st, ast.Assign) and not isinstance(
                        t, ast.Subscript) and v is not None and norm(v) in (
                            f"self.fp['{attr}']", f"self.fp.get('{attr}')") \
                        and not conditions_at(st)
                    ctx.check(ok, st, f"{q}: self.{attr} <- the setting",
                              f"fit.py:{q} sets the fitter's working "
                              f"`{attr}` to `{norm(st)[:70]}`"
                              + (" (conditionally)" if conditions_at(st)
                                 else "") + ", not to a plain copy of the "
                              f"requested setting '{attr}': the fit then "
                              "runs on a different interval/mode than "
                              "requested (e.g. a clipped absolute range "
                              "outside the data collapses to zero width, "
                              "which selects the whole segment)")
    ctx.floor("stores of the fitter's scratch settings in its constructor", n, 3)


RULES = [
    ("C05-R1", "absolute range mask: closed interval on the unscaled "
     "abscissa within a copy of the segment mask",
     fitclauses.clause_absolute_mask),
    ("C05-R2", "optimiser uses that mask; xmin/xmax in measured units",
     fitclauses.clause_minimize_inputs),
    ("C05-R2b", "reported extremes converted back with the correction "
     "factor", fitclauses.clause_gcf_pairing),
    ("C05-R3", "relative-cp passes anchored at the fitted contact point",
     fitclauses.clause_relative_cp),
    ("C05-R4", "plateau scan grid, sample count, selected depth inside the "
     "scan and used as lower bound", fitclauses.clause_plateau_scan),
    ("C05-R5", "range/scan settings invalidate cached results",
     r5_invalidation),
    ("C05-R6", "scratch range restored between passes", r6_restore),
    ("C05-R7", "the range don't-care keys on the bound the fit uses",
     r7_dont_care_agreement),
    ("C05-R8", "a request is copied into the settings in an order in which "
     "every setting is judged against the new values it depends on",
     fitclauses.clause_store_order),
    ("C05-R9", "the fitter's working range, range type and plateau switch "
     "start as plain copies of the request", r9_scratch_is_the_request),
]
