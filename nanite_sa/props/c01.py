"""C01 — fitting recovers the parameters that generated the data."""
from __future__ import annotations

from .. import fitclauses, fitrules

EXPLANATION = (
    "Recovery itself (optimizer behaviour over real numbers) is not "
    "decidable statically. Decided are structural preconditions without "
    "which recovery from a supplied guess cannot hold, for all curves and "
    "settings: (R1) a supplied initial guess reaches lmfit.minimize - "
    "keyword arguments are stored in sorted order (model before "
    "parameters), no later write resets them, the fitter copies settings "
    "in sorted order, guesses are used only when none are stored, and the "
    "default contact point is the tip position at the estimated contact "
    "index; (R2) every key of FP_DEFAULT is read on the fitting path; (R3) "
    "objective, model and residual columns come from the model selected by "
    "'model_key', abscissa and ordinate are cut by the same mask, 'method', "
    "'method_kws' and 'weight_cp' reach the optimiser; (R4) the shipped "
    "model functions evaluate their documented formulas (shared with C02), "
    "since a fit can only recover parameters of the function it evaluates; "
    "(R5-R8, shared with C05/C03) the relative-cp passes, the range mask "
    "on the requested segment, invalidation of stale results and the "
    "delivery of every request keyword - recovery is judged on the fitted "
    "points of the current request.")
NOT_DECIDED = [
    "that the optimisation converges / reports success and the size of the "
    "parameter error with or without noise",
    "the convergence basin",
]


def r4_models(ctx):
    from .c02 import r1_formula_agreement, r2_off_contact
    r1_formula_agreement(ctx)
    r2_off_contact(ctx)


def r6_new_guess_refits(ctx):
    fitrules.setitem_invalidation(
        ctx, why=" (a second fit started from a corrected guess returns "
        "the result of the first one)")


def r8_request_reaches_fit(ctx):
    from .c03 import r4_fit_iff_no_hash
    r4_fit_iff_no_hash(ctx)


def r10_samples_paired(ctx):
    """the model value of every sample is paired with that sample on both
    segments (recovery on the retract segment)"""
    from .c13 import r1_direction_wrapper
    r1_direction_wrapper(ctx)


def r12_guess_from_the_curve(ctx):
    """When no initial parameters are stored, they are guessed *from the
    curve* (contact point from the point-of-contact estimate, ancillaries):
    the dataset is handed down on every hop of that chain.  Without it the
    guess falls back to the model defaults (contact point 0), which for a
    curve whose tip position is not offset-corrected lies outside the data -
    the gradient vanishes and the 'fit' returns the defaults with
    success=True."""
    from ..astutil import bound_args, call_name, calls_in, norm
    fitm = ctx.repo.mod("fit")
    hops = [("IndentationFitter.__init__", "get_initial_parameters",
             "IndentationFitter.get_initial_parameters", "idnt", "idnt"),
            ("IndentationFitter.get_initial_parameters",
             "guess_initial_parameters", "guess_initial_parameters",
             "idnt", "idnt")]
    n = 0
    for caller, cname, callee, par, want in hops:
        f = fitm.func(caller)
        g = fitm.func(callee)
        ctx.analysed(f)
        for c in calls_in(f):
            if (call_name(c) or "").split(".")[-1] != cname:
                continue
            n += 1
            b = bound_args(c, g)
            got = norm(b[par]) if par in b else None
            ctx.check(got == want, c, f"{caller}: {cname}({par}={got})",
                      f"{caller} calls {cname}() with {par}={got}: the "
                      "curve is not handed on, so the initial parameters "
                      "are the model defaults instead of a guess from the "
                      "data (contact point 0 - outside the data of a curve "
                      "that is not offset-corrected; the optimiser then "
                      "returns the defaults and reports success)")
    ctx.floor("hops of the initial-parameter guess", n, 2)



def r_no_handout(ctx):
    """the documented get-edit-fit workflow (`p = get_initial_fit_parameters();
    p[..].value = ..; fit_model(params_initial=p)`) only leads to a new fit if
    the stored settings are never handed out: shared with C10-R3"""
    from .c10 import r3_no_handout
    r3_no_handout(ctx)


RULES = [
    ("C01-R1", "a supplied initial guess reaches the optimiser",
     fitclauses.clause_guess_delivery),
    ("C01-R2", "no dead setting", fitclauses.clause_no_dead_setting),
    ("C01-R3", "one model, one mask; method settings reach lmfit.minimize",
     fitclauses.clause_minimize_inputs),
    ("C01-R4", "shipped model functions evaluate their documented formula",
     r4_models),
    ("C01-R5", "contact-point relative fits start from a full-segment "
     "estimate of the contact point", fitclauses.clause_relative_cp),
    ("C01-R6", "an edited initial guess or setting leads to a new fit "
     "(stale results are dropped)", r6_new_guess_refits),
    ("C01-R9", "a request is copied into the settings in an order in which "
     "no stored value is overwritten by a dependent reset",
     fitclauses.clause_store_order),
    ("C01-R11", "the contact point is converted between measured and "
     "corrected units once in each direction, value only, and nothing "
     "else uses the correction factor", fitclauses.clause_gcf_pairing),
    ("C01-R10", "model values stay paired with their samples for either "
     "orientation of the abscissa", r10_samples_paired),
    ("C01-R7", "the points fitted are those of the requested interval on "
     "the requested segment", fitclauses.clause_absolute_mask),
    ("C01-R8", "every keyword of a fit request is stored as given and the "
     "optimisation runs whenever no current result exists",
     r8_request_reaches_fit),
    ("C01-R12", "initial parameters that are not stored are guessed from "
     "the curve (the dataset reaches guess_initial_parameters)",
     r12_guess_from_the_curve),
    ("C01-R13", "stored settings are never handed out by reference (an "
     "edited copy given back to fit_model must be seen as a change)",
     r_no_handout),
]
