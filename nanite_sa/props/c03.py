"""C03 — fit results depend only on data and current settings, not on
history."""
from __future__ import annotations

import ast

from .. import effects, facts, fitrules
from ..astutil import (call_name, calls_in, const_str, dotted, func_params,
                       norm,
                       walk_no_nested)
from ..cfg import CFG
from ..guards import conditions_at
from ..loader import AnchorError, Undecided

EXPLANATION = (
    "The invalidation discipline that makes history-independence possible, "
    "decided on all paths: (R1) FitProperties.__setitem__ drops results on "
    "every path that stores a changed setting; (R2) every key written on a "
    "fit-properties object is a declared setting or result, the fitter "
    "writes only result keys after construction, reset() removes exactly "
    "the non-settings; (R3) writers that bypass __setitem__ are the "
    "enumerated ones; (R4) optimisation and result columns are reached only "
    "under `'hash' not in fit_properties` and the columns come from the "
    "fitter that produced the stored results; (R5) the block that re-runs "
    "the preprocessing pipeline also drops fit results and the rating; "
    "(R6) the fitter restores its scratch range/flags on every normal exit; "
    "(R7) no fitter/curve method edits a stored settings object in place.")
NOT_DECIDED = [
    "numerical equality of results with a from-scratch fit on a fresh copy",
    "that a repeated fit performs no optimisation is decided only as "
    "'every path to lmfit.minimize passes the hash-absent guard'",
]

FITTER_SCRATCH = ("range_x", "range_type", "optimal_fit_edelta")


def r1_invalidate_on_change(ctx):
    fitrules.setitem_invalidation(ctx)


def r2_result_keys(ctx):
    repo = ctx.repo
    dflt = set(facts.fp_default(repo))
    res = set(facts.fp_results(repo))
    ctx.check("hash" in res, repo.mod("fit").assign("FP_RESULTS"),
              "'hash' in FP_RESULTS",
              "'hash' is not a result key: reset() keeps the hash of "
              "previous settings and fit_model never refits")
    ctx.check(not (dflt & res), repo.mod("fit").assign("FP_RESULTS"),
              "FP_DEFAULT and FP_RESULTS disjoint",
              f"keys {sorted(dflt & res)} are both settings and results")
    n = 0
    for m, q, f in repo.all_funcs():
        if m.name.startswith("cli"):
            continue
        for u in facts.fp_key_uses(f):
            if u.kind not in ("write", "update") or u.key is None:
                continue
            n += 1
            ok = u.key in dflt | res
            ctx.check(ok, u.node, f"write of key '{u.key}'",
                      f"key '{u.key}' written to fit properties is neither "
                      "in FP_DEFAULT nor in FP_RESULTS: reset() would keep "
                      "or FitProperties would reject it")
            if ok and m.name == "fit" and q.startswith("IndentationFitter.") \
                    and q != "IndentationFitter.__init__":
                ctx.check(u.key in res, u.node,
                          f"fitter writes result key '{u.key}'",
                          f"{q} writes the settings key '{u.key}': the "
                          "fitter's private settings copy is reset/changed "
                          "while fitting and the stored settings no longer "
                          "match the hash")
    ctx.floor("literal key writes on fit properties", n, 10)
    # reset(): removes exactly the keys outside FP_DEFAULT
    fn = repo.mod("fit").func("FitProperties.reset")
    ctx.analysed(fn)
    pops = [c for c in calls_in(fn) if isinstance(c.func, ast.Attribute)
            and c.func.attr in ("pop", "__delitem__")
            and dotted(c.func.value) == "self"]
    dels = [n_ for n_ in walk_no_nested(fn, False)
            if isinstance(n_, ast.Delete)]
    if not pops and not dels:
        ctx.fail(fn, "reset() removes keys",
                 "FitProperties.reset no longer removes anything")
    import re as _re
    for c in pops:
        conds = conditions_at(c)
        var = norm(c.args[0]) if c.args else "?"
        good = len(conds) == 1 and (not conds[0].pol) and \
            conds[0].text == f"{var} in FP_DEFAULT"
        # the selection written as a set difference (a snapshot by
        # construction): every key of self that is not a setting
        lp0 = c
        while lp0 is not None and not isinstance(lp0, ast.For):
            lp0 = getattr(lp0, "_parent", None)
        it0 = norm(lp0.iter).replace(" ", "") if lp0 is not None else ""
        snap = r"(?:frozenset|set)\(self(?:\.keys\(\))?\)"
        dflt = r"(?:(?:frozenset|set)\()?FP_DEFAULT(?:\.keys\(\))?\)?"
        if not conds and lp0 is not None and norm(lp0.target) == var and (
                _re.fullmatch(snap + r"\.difference\(" + dflt + r"\)", it0)
                or _re.fullmatch(snap + "-" + dflt, it0)
                or _re.fullmatch(r"self\.keys\(\)-" + dflt, it0)):
            ctx.ok(c, f"reset pops the keys of self outside FP_DEFAULT "
                   f"({it0})")
            continue
        ctx.check(good, c, f"reset pops {var} iff not in FP_DEFAULT",
                  "reset() does not remove exactly the keys outside "
                  "FP_DEFAULT (condition: "
                  + " and ".join(repr(a) for a in conds) + ")")
        # iterates over a snapshot of all keys
        loop = c
        while loop is not None and not isinstance(loop, ast.For):
            loop = getattr(loop, "_parent", None)
        ok = loop is not None and norm(loop.iter) in (
            "list(self.keys())", "list(self)", "tuple(self.keys())",
            "tuple(self)", "sorted(self.keys())", "sorted(self)")
        ctx.check(ok, c, "reset iterates over a snapshot of all keys",
                  "reset() does not iterate over a snapshot of all keys")


ALLOWED_BYPASS = {
    # (module, function): reason
    ("indent", "Indentation.fit_properties"):
        "the property setter: merges a complete fitter.fp / loaded dict",
    ("fit", "IndentationFitter._fit"):
        "stores the results of the optimisation (result keys only)",
    ("fit", "FitProperties.restore"): "restore() itself",
    ("fit", "FitProperties.__setitem__"): "__setitem__ itself",
}
ALLOWED_SETTER_CALLERS = {
    ("indent", "Indentation.fit_model"):
        "adopts fitter.fp after fitter.fit()",
    ("rate.io", "load_hdf5"):
        "rebuilds a stored curve from a rating container",
}


def r3_bypass_writers(ctx):
    repo = ctx.repo
    res = set(facts.fp_results(repo))
    n = 0
    for m, q, f in repo.all_funcs():
        infp = facts.class_of(f) == "FitProperties"
        al = facts.fp_aliases(f)
        for c in calls_in(f):
            bypass = False
            if isinstance(c.func, ast.Attribute) and c.func.attr in (
                    "update", "restore", "setdefault", "__setitem__",
                    "clear", "popitem") and facts.is_fp_receiver(
                        c.func.value, al, infp):
                bypass = True
            if fitrules.is_super_setitem(c) and infp:
                bypass = True
            if not bypass:
                continue
            n += 1
            ok = (m.name, q) in ALLOWED_BYPASS
            ctx.check(ok, c, f"bypass writer {norm(c)[:70]}",
                      f"{m.name}.{q} writes fit properties without going "
                      "through FitProperties.__setitem__ (no invalidation of "
                      "stale results); allowed sites: "
                      + ", ".join(f"{a}.{b}" for a, b in ALLOWED_BYPASS))
            if ok and (m.name, q) == ("fit", "IndentationFitter._fit"):
                keys = []
                if c.args and isinstance(c.args[0], ast.Dict):
                    keys = [const_str(k) for k in c.args[0].keys]
                ctx.check(bool(keys) and all(k in res for k in keys), c,
                          f"_fit result update keys {keys}",
                          "_fit's bypassing update writes keys outside "
                          "FP_RESULTS")
        # assignments through the fit_properties setter
        for st in walk_no_nested(f, False):
            if isinstance(st, ast.Assign):
                for t in st.targets:
                    if isinstance(t, ast.Attribute) and \
                            t.attr == "fit_properties":
                        n += 1
                        ok = (m.name, q) in ALLOWED_SETTER_CALLERS
                        ctx.check(ok, st, f"setter use {norm(st)}",
                                  f"{m.name}.{q} assigns .fit_properties "
                                  "(merges a dict without invalidation)")
    ctx.floor("bypassing writers of fit properties", n, 4)
    # the setter merges into the protected FitProperties instance
    setter = None
    for st in repo.mod("indent").cls("Indentation").body:
        if isinstance(st, ast.FunctionDef) and st.name == "fit_properties" \
                and any(norm(d) == "fit_properties.setter"
                        for d in st.decorator_list):
            setter = st
    if setter is None:
        raise AnchorError("Indentation.fit_properties setter not found")


def r4_fit_iff_no_hash(ctx):
    repo = ctx.repo
    ind = repo.mod("indent")
    fn = ind.func("Indentation.fit_model")
    ctx.analysed(fn)
    cfg = CFG(fn)
    # fitter constructions and .fit() calls
    ctor = [c for c in calls_in(fn) if call_name(c) == "IndentationFitter"]
    ctx.floor("IndentationFitter(...) in fit_model", len(ctor), 1)
    fitters = set()
    for st in walk_no_nested(fn, False):
        if isinstance(st, ast.Assign) and isinstance(st.value, ast.Call) \
                and call_name(st.value) == "IndentationFitter" \
                and isinstance(st.targets[0], ast.Name):
            fitters.add(st.targets[0].id)
            ctx.check(len(st.value.args) == 1 and norm(st.value.args[0]) ==
                      "self" and not st.value.keywords, st,
                      f"fitter built from the curve's stored settings: "
                      f"{norm(st.value)}",
                      "fit_model passes extra settings to the fitter that "
                      "are not stored on the curve: results are shown for "
                      "settings other than the stored ones")
    guarded = []
    for c in calls_in(fn):
        cn = call_name(c) or ""
        is_fit = any(cn == f"{v}.fit" for v in fitters)
        if is_fit or cn == "IndentationFitter":
            guarded.append(c)
    col_stores = []
    for st in walk_no_nested(fn, False):
        if isinstance(st, ast.Assign):
            for t in st.targets:
                if isinstance(t, ast.Subscript) and norm(t.value) == "self" \
                        and const_str(t.slice) in ("fit", "fit residuals",
                                                   "fit range"):
                    col_stores.append(st)
                if isinstance(t, ast.Attribute) and dotted(t) == \
                        "self.fit_properties":
                    col_stores.append(st)
    ctx.floor("result stores in fit_model", len(col_stores), 4)
    for node in col_stores:
        conds = conditions_at(node)
        extra = [a for a in conds if a.text not in (
            "'hash' in self.fit_properties",
            "'hash' in self._fit_properties")
            and isinstance(a.origin, (ast.If, ast.IfExp))]
        ctx.check(not extra, node,
                  f"{norm(node)[:50]} stored for every new fit",
                  "after a new fit a result column / the fit properties are "
                  "only written when "
                  + " and ".join(repr(a) for a in extra)
                  + ": otherwise the column keeps the values of the "
                  "previous fit while the stored settings are the new ones")
    for node in guarded + col_stores:
        conds = conditions_at(node)
        ok = any((not a.pol) and a.text in (
            "'hash' in self.fit_properties",
            "'hash' in self._fit_properties") for a in conds)
        ctx.check(ok, node, f"{norm(node)[:60]} only when no hash is stored",
                  "fit_model fits / overwrites results although a hash of "
                  "the current settings is stored (or without looking at "
                  "it): repeating a fit re-optimises, or results and "
                  "settings can disagree")
    # columns come from the fitter whose fp is adopted, in this mapping
    want = {"fit": "fit_curve", "fit residuals": "fit_residuals",
            "fit range": "fit_range"}
    adopt = [st for st in col_stores if isinstance(
        st.targets[0], ast.Attribute)]
    for st in col_stores:
        t = st.targets[0]
        if isinstance(t, ast.Subscript):
            col = const_str(t.slice)
            src = dotted(st.value) or ""
            v, _, attr = src.rpartition(".")
            ctx.check(v in fitters and attr == want[col], st,
                      f"column '{col}' <- {src}",
                      f"column '{col}' is filled from {src or norm(st.value)}"
                      f" instead of the fitter's {want[col]}")
        else:
            src = dotted(st.value) or ""
            v, _, attr = src.rpartition(".")
            ctx.check(v in fitters and attr == "fp", st,
                      f"fit_properties <- {src}",
                      "the stored fit properties are not the fitter's")
    # order: fitter.fit() before adopting results
    fits = [cfg.node_containing(c) for c in guarded
            if (call_name(c) or "").endswith(".fit")]
    for st in col_stores:
        n = cfg.node_of_stmt(st)
        good = n is not None and fits and all(
            f is not None and cfg.dominates(f.id, n.id) for f in fits)
        ctx.check(good, st, f"{norm(st)[:50]} after fitter.fit()",
                  "results are copied from the fitter before it has fitted")
    # the settings of the kwargs are all stored through __setitem__
    loops = [n for n in walk_no_nested(fn, False) if isinstance(n, ast.For)
             and "kwargs" in norm(n.iter)]
    ctx.floor("kwargs loop in fit_model", len(loops), 1)
    for lp in loops:
        var = norm(lp.target)
        stores = [st for st in ast.walk(lp) if isinstance(st, ast.Assign)
                  and isinstance(st.targets[0], ast.Subscript)
                  and norm(st.targets[0].slice) == var
                  and "fit_properties" in norm(st.targets[0].value)]
        ok = bool(stores) and all(norm(s.value) == f"kwargs[{var}]"
                                  for s in stores)
        ctx.check(ok, lp, "every keyword argument is stored as a setting",
                  "fit_model no longer stores every keyword argument in "
                  "fit_properties before fitting")
        for s in stores:
            conds = conditions_at(s, stop=lp)
            ctx.check(not conds, s, "keyword stored unconditionally",
                      "a keyword argument is stored only when "
                      + " and ".join(repr(a) for a in conds))
    # other callers of the optimiser entry points
    for m, q, f in repo.all_funcs():
        if (m.name, q) == ("indent", "Indentation.fit_model") or \
                m.name.startswith("cli") or (
                    m.name == "fit" and q.startswith("IndentationFitter.")):
            continue
        for c in calls_in(f):
            if call_name(c) == "IndentationFitter":
                conds = conditions_at(c)
                ok = (m.name, q) == (
                    "indent", "Indentation.compute_emodulus_mindelta") and \
                    any((not a.pol) and "optimal_fit_E_array" in a.text
                        for a in conds)
                ctx.check(ok, c, f"fitter constructed in {m.name}.{q}",
                          f"{m.name}.{q} builds a fitter outside fit_model "
                          "without a cache guard")


def _guaranteed_reset_nodes(cfg, fn, al):
    """CFG nodes that certainly drop the fit results: `fp.reset()` and
    `fp[K] = v` for a settings key K that was popped before (K absent =>
    __setitem__ takes the reset branch; K not model_key/range_x/
    params_initial special cases)."""
    out = set()
    pops = {}
    for n in cfg.nodes:
        for c in fitrules.node_calls(n):
            if isinstance(c.func, ast.Attribute) and facts.is_fp_receiver(
                    c.func.value, al):
                if c.func.attr == "reset":
                    out.add(n.id)
                elif c.func.attr == "pop" and c.args and const_str(
                        c.args[0]):
                    pops.setdefault(const_str(c.args[0]), []).append(n)
    for n in cfg.nodes:
        a = n.ast
        if n.kind == "stmt" and isinstance(a, ast.Assign):
            for t in a.targets:
                if isinstance(t, ast.Subscript) and facts.is_fp_receiver(
                        t.value, al):
                    k = const_str(t.slice)
                    if k in pops and k not in ("range_x", "params_initial"):
                        # no other store of k between pop and this store
                        for p in pops[k]:
                            if cfg.dominates(p.id, n.id):
                                out.add(n.id)
    return out


def r5_preprocessing_resets(ctx):
    ind = ctx.repo.mod("indent")
    fn = ind.func("Indentation.apply_preprocessing")
    ctx.analysed(fn)
    cfg = CFG(fn)
    al = facts.fp_aliases(fn)
    applies = [n for n in cfg.nodes if any(
        call_name(c) in ("preproc.apply", "apply")
        for c in fitrules.node_calls(n))]
    if not applies:
        raise AnchorError("apply_preprocessing no longer calls preproc.apply")
    a = applies[0]
    resets = _guaranteed_reset_nodes(cfg, fn, al)
    ctx.check(bool(resets) and fitrules.every_path_through(cfg, a.id, resets),
              a.ast, "pipeline run is paired with a reset of fit results",
              "apply_preprocessing can re-run the pipeline (which wipes the "
              "fit columns) without dropping the fit results: hash and "
              "parameters of the old data survive and fit_model does "
              "nothing")
    rnone = {n.id for n in cfg.nodes if n.kind == "stmt"
             and isinstance(n.ast, ast.Assign)
             and any(dotted(t) == "self._rating" for t in n.ast.targets)
             and isinstance(n.ast.value, ast.Constant)
             and n.ast.value.value is None}
    ctx.check(bool(rnone) and fitrules.every_path_through(cfg, a.id, rnone),
              a.ast, "pipeline run is paired with `self._rating = None`",
              "apply_preprocessing can re-run the pipeline without "
              "dropping the cached rating")
    # writers of _rating
    allowed = {("indent", "Indentation.__init__"),
               ("indent", "Indentation.apply_preprocessing"),
               ("indent", "Indentation.rate_quality")}
    for m, q, f in ctx.repo.all_funcs():
        for st in walk_no_nested(f, False):
            if isinstance(st, (ast.Assign, ast.AugAssign)):
                tg = st.targets if isinstance(st, ast.Assign) else [st.target]
                for t in tg:
                    if isinstance(t, ast.Attribute) and t.attr == "_rating":
                        ctx.check((m.name, q) in allowed, st,
                                  f"writer of _rating: {m.name}.{q}",
                                  f"{m.name}.{q} writes the rating cache")


def r6_fitter_restores(ctx):
    fitm = ctx.repo.mod("fit")
    fn = fitm.func("IndentationFitter.fit")
    ctx.analysed(fn)
    cfg = CFG(fn)
    n_inst = 0
    for attr in FITTER_SCRATCH:
        mods = [n for n in cfg.nodes if n.kind == "stmt"
                and isinstance(n.ast, ast.Assign)
                and any(dotted(t) == f"self.{attr}" for t in n.ast.targets)]
        if not mods:
            continue
        # saved copy at entry
        saves = {}
        for n in cfg.nodes:
            a = n.ast
            if n.kind == "stmt" and isinstance(a, ast.Assign) and \
                    isinstance(a.targets[0], ast.Name):
                v = a.value
                if isinstance(v, ast.Call) and call_name(v) in (
                        "copy.copy", "copy.deepcopy", "list") and v.args:
                    v = v.args[0]
                if dotted(v) == f"self.{attr}":
                    saves[a.targets[0].id] = n
        restores = set()
        for n in mods:
            v = n.ast.value
            if isinstance(v, ast.Name) and v.id in saves:
                # the saved name must not be rebound elsewhere
                rebound = [x for x in cfg.nodes if x.kind == "stmt"
                           and isinstance(x.ast, ast.Assign)
                           and any(norm(t) == v.id for t in x.ast.targets)
                           and x is not saves[v.id]]
                if not rebound and cfg.dominates(saves[v.id].id, n.id):
                    restores.add(n.id)
            elif isinstance(v, ast.Constant):
                # restoring a constant is fine when the branch established
                # that the attribute had that value
                conds = conditions_at(n.ast)
                if any(a.text == f"self.{attr}" and a.pol == bool(v.value)
                       for a in conds):
                    # it must be the last write of the branch
                    later = cfg.reach([n.id], skip_labels=("exc",))
                    if not any(m_.id in later and m_.id != n.id
                               and m_.id not in restores for m_ in mods
                               if not isinstance(m_.ast.value, ast.Name)):
                        restores.add(n.id)
        for n in mods:
            if n.id in restores:
                continue
            n_inst += 1
            r = cfg.reach([n.id], avoid=restores, skip_labels=("exc",))
            ctx.check(cfg.exit not in r, n.ast,
                      f"{norm(n.ast)} restored before fit() returns",
                      f"fit() changes the fitter's self.{attr} and can "
                      "return without restoring the value it had at entry: "
                      "a later pass or a repeated fit() on the same fitter "
                      "uses the scratch value")
        for sname, sn in saves.items():
            for n in mods:
                if n.id in restores:
                    continue
                ctx.check(cfg.dominates(sn.id, n.id), n.ast,
                          f"self.{attr} saved before {norm(n.ast)}",
                          f"self.{attr} is modified before its entry value "
                          "was saved")
    ctx.floor("scratch-state modifications in fit()", n_inst, 3)
    # `fit()` never writes the settings it iterates on (through self.fp)
    for u in facts.fp_key_uses(fn):
        if u.kind == "write" and u.key in facts.fp_default(ctx.repo):
            ctx.fail(u.node, f"fit() writes setting '{u.key}'",
                     "fit() edits a stored setting instead of its scratch "
                     "copy")


def settings_mutations(repo, funcs):
    """In-place mutations of objects read from a fit-properties settings
    key: [(node, func, key, how)]."""
    dflt = set(facts.fp_default(repo))
    out = []
    for f in funcs:
        al = facts.fp_aliases(f)
        infp = facts.class_of(f) == "FitProperties"
        roots = {}
        for st in walk_no_nested(f, False):
            if isinstance(st, ast.Assign) and len(st.targets) == 1 and \
                    isinstance(st.targets[0], ast.Name):
                v = st.value
                if isinstance(v, ast.Subscript) and facts.is_fp_receiver(
                        v.value, al, infp) and const_str(v.slice) in dflt:
                    roots[st.targets[0].id] = f"setting:{const_str(v.slice)}"
        amap = effects.alias_map(f, roots)
        # a name also assigned from a copy elsewhere is still may-alias
        for node, root, how in effects.mutations(f, amap):
            out.append((node, f, root, how))
        # direct: self.fp["k"]... mutated
        for n in walk_no_nested(f, False):
            tgt = None
            if isinstance(n, ast.Call) and isinstance(n.func, ast.Attribute) \
                    and n.func.attr in effects.MUT_METHODS:
                tgt = n.func.value
            elif isinstance(n, (ast.Assign, ast.AugAssign)):
                tg = n.targets if isinstance(n, ast.Assign) else [n.target]
                for t in tg:
                    if isinstance(t, (ast.Subscript, ast.Attribute)):
                        tgt = t.value
                        k = _settings_path(tgt, al, infp, dflt)
                        if k:
                            out.append((n, f, k, f"store to {norm(t)}"))
                tgt = None
            if tgt is not None:
                k = _settings_path(tgt, al, infp, dflt)
                if k:
                    out.append((n, f, k, f"call {norm(n)[:70]}"))
    return out


def _settings_path(expr, al, infp, dflt):
    """If expr is (a path below) recv["K"] for a settings key K, return K."""
    e = expr
    while isinstance(e, (ast.Subscript, ast.Attribute)):
        if isinstance(e, ast.Subscript) and facts.is_fp_receiver(
                e.value, al, infp) and const_str(e.slice) in dflt:
            return const_str(e.slice)
        e = e.value
    return None


def r7_no_edit_behind_hash(ctx):
    repo = ctx.repo
    funcs = [f for m, q, f in repo.all_funcs()
             if (m.name == "fit" and not q.startswith("FitProperties."))
             or m.name == "indent"]
    ctx.floor("fitter and curve methods", len(funcs), 20)
    muts = settings_mutations(repo, funcs)
    for node, f, key, how in muts:
        ctx.fail(node, how,
                 f"{f._qualname} mutates the stored settings object "
                 f"'{key.split(':')[-1]}' in place: the stored settings no "
                 "longer match the hash taken from them and later fits "
                 "start from the edited values")
    if not muts:
        ctx.ok(repo.mod("fit").func("IndentationFitter._fit"),
               f"no in-place edit of stored settings in {len(funcs)} "
               "functions")
    for f in funcs:
        ctx.analysed(f)


def r8_settings_by_value(ctx):
    fn = ctx.repo.mod("fit").func("FitProperties.__setitem__")
    ctx.check(fitrules.fp_stores_by_value(ctx.repo), fn,
              "FitProperties.__setitem__ deep-copies settings",
              "settings are stored by reference or through a shallow copy "
              "only: editing a (nested) object that was passed before - "
              "e.g. an inner dict of the preprocessing options - changes "
              "the stored settings while hash and results stay, and passing "
              "it again compares equal, so nothing is recomputed")


def r9_failed_request_forgotten(ctx):
    from .c06 import r3_commit_after_success
    r3_commit_after_success(ctx)


def r10_settings_describe_the_data(ctx):
    from .c06 import r10_settings_describe_the_data as r
    r(ctx)


def r11_store_order(ctx):
    from ..fitclauses import clause_store_order
    clause_store_order(ctx)


def r12_hash_encoding(ctx):
    """the visible hash of equal settings is the same however they were
    written (1, 1.0, True; list or tuple)"""
    from .c12 import r2_encoder
    r2_encoder(ctx)


def r14_hash_describes_settings(ctx):
    """'unchanged settings -> no new optimisation' is decided by the stored
    hash: it has to cover every setting and the data, and no setting may be
    written after it was taken (such a write goes through __setitem__,
    drops the hash again, and the next identical request fits anew)"""
    from .c12 import r1_coverage
    r1_coverage(ctx)


def r15_request_reaches_the_pipeline(ctx):
    """the stored preprocessing settings describe the data only if the
    request that fit_model stores is the request the pipeline ran with:
    an explicit empty list/dict is a request of its own, not "use the
    remembered one" (only None is)"""
    from .c06 import r6_skip_test
    r6_skip_test(ctx)


def r13_tested_value_is_stored(ctx):
    """'Unchanged' is decided by comparing the stored setting with the
    requested value, so the value that is stored must be the one that was
    compared (a copy of it at most): if the request is rewritten between
    the comparison and the store (an alias spelling replaced by its
    canonical form, a list sorted, ...) the stored form never equals the
    spelling the caller repeats, and every repetition drops the results and
    fits again."""
    from ..cfg import CFG
    from ..dataflow import reaching_defs
    fn = ctx.repo.mod("fit").func("FitProperties.__setitem__")
    ctx.analysed(fn)
    params = func_params(fn)
    if len(params) < 3:
        raise Undecided("FitProperties.__setitem__ signature changed")
    kv, vv = params[1], params[2]
    cfg = CFG(fn)
    rd = reaching_defs(cfg)
    from ..symres import Resolver as _Rr
    Rr = _Rr(fn, keep={vv, kv})
    comps = []
    for n in walk_no_nested(fn, False):
        if isinstance(n, ast.Compare) and len(n.ops) == 1 and isinstance(
                n.ops[0], (ast.Eq, ast.NotEq)):
            sides = [Rr.text(n.left), Rr.text(n.comparators[0])]
            if any(norm(x) == vv for x in (n.left, n.comparators[0])) and \
                    any(s_ in (f"self[{kv}]", f"self.get({kv})")
                        for s_ in sides):
                comps.append(n)
    ctx.floor("comparisons of the stored setting with the request",
              len(comps), 1)
    stores = []
    for c in calls_in(fn):
        if isinstance(c.func, ast.Attribute) and c.func.attr == \
                "__setitem__" and len(c.args) >= 2 and norm(
                    c.args[-2]) == kv:
            stores.append(c)
    ctx.floor("stores of the setting", len(stores), 1)

    def origin(defs, depth=0):
        """definitions of the request after looking through copies"""
        out = set()
        for d in defs:
            node = cfg.nodes[d]
            a = node.ast
            if depth < 4 and node.kind == "stmt" and isinstance(
                    a, ast.Assign) and isinstance(a.value, ast.Call) and \
                    call_name(a.value) in ("copy.deepcopy", "copy.copy",
                                           "deepcopy") and \
                    a.value.args and norm(a.value.args[0]) == vv:
                inner = {d2 for (v, d2) in rd.get(d, ()) if v == vv}
                out |= origin(inner, depth + 1)
            else:
                out.add(d)
        return out
    for cmp_ in comps:
        cn = cfg.node_containing(cmp_)
        if cn is None:
            raise Undecided("comparison not found in the flow graph")
        at_cmp = origin({d for (v, d) in rd.get(cn.id, ()) if v == vv})
        for st in stores:
            arg = st.args[-1]
            sn = cfg.node_containing(st)
            if sn is None or sn.id not in cfg.reach([cn.id]):
                continue
            # the stored expression: the request itself or a copy of it
            a0 = arg
            if isinstance(a0, ast.Call) and call_name(a0) in (
                    "copy.deepcopy", "copy.copy", "deepcopy") and a0.args:
                a0 = a0.args[0]
            if isinstance(a0, ast.Name) and a0.id != vv:
                # a local that only ever holds a copy of the request
                dd = [cfg.nodes[d] for (v, d) in rd.get(sn.id, ())
                      if v == a0.id]
                if dd and all(
                        x.kind == "stmt" and isinstance(x.ast, ast.Assign)
                        and isinstance(x.ast.value, ast.Call) and call_name(
                            x.ast.value) in ("copy.deepcopy", "copy.copy",
                                             "deepcopy")
                        and x.ast.value.args and norm(
                            x.ast.value.args[0]) == vv for x in dd):
                    at_store = set()
                    for x in dd:
                        at_store |= origin({d for (v, d) in rd.get(x.id, ())
                                            if v == vv})
                    extra = at_store - at_cmp
                    ctx.check(not extra, st, f"the request compared at line "
                              f"{cmp_.lineno} is what is stored",
                              f"FitProperties.__setitem__ rewrites `{vv}` "
                              f"after comparing it with the stored setting "
                              f"(`{norm(cmp_)}`) and before storing a copy "
                              "of it: an unchanged request in the caller's "
                              "spelling is taken for a change")
                    continue
            if norm(a0) != vv:
                ctx.fail(st, f"stored value {norm(arg)[:40]}",
                         f"FitProperties.__setitem__ compares `{norm(cmp_)}`"
                         f" but stores `{norm(arg)[:60]}`: the stored form "
                         "never equals a repeated request")
                continue
            at_store = origin({d for (v, d) in rd.get(sn.id, ())
                               if v == vv})
            extra = at_store - at_cmp
            lines = sorted({cfg.nodes[d].lineno for d in extra
                            if cfg.nodes[d].ast is not None})
            ctx.check(not extra, st,
                      f"the request compared at line {cmp_.lineno} is what "
                      "is stored",
                      f"FitProperties.__setitem__ rewrites `{vv}` (line "
                      f"{', '.join(map(str, lines))}) after comparing it "
                      f"with the stored setting (`{norm(cmp_)}`) and "
                      "before storing it: the stored form differs from "
                      "the spelling the caller repeats (e.g. segment="
                      "'approach' stored as 0), so an unchanged request "
                      "is taken for a change, the results are dropped and "
                      "the fit runs again")



def r_no_handout(ctx):
    """the documented get-edit-fit workflow (`p = get_initial_fit_parameters();
    p[..].value = ..; fit_model(params_initial=p)`) only leads to a new fit if
    the stored settings are never handed out: shared with C10-R3"""
    from .c10 import r3_no_handout
    r3_no_handout(ctx)


RULES = [
    ("C03-R1", "a changed setting drops results on every storing path",
     r1_invalidate_on_change),
    ("C03-R2", "written keys are declared; fitter writes only results; "
     "reset() removes exactly the non-settings", r2_result_keys),
    ("C03-R3", "writers bypassing __setitem__ are the enumerated ones",
     r3_bypass_writers),
    ("C03-R4", "optimisation and result columns only under 'no hash stored'",
     r4_fit_iff_no_hash),
    ("C03-R5", "re-running the pipeline drops fit results and rating",
     r5_preprocessing_resets),
    ("C03-R6", "fitter restores its scratch range/flags", r6_fitter_restores),
    ("C03-R7", "stored settings objects are never edited in place",
     r7_no_edit_behind_hash),
    ("C03-R8", "settings are stored by (deep) value", r8_settings_by_value),
    ("C03-R9", "a failed preprocessing request leaves no remembered "
     "pipeline behind", r9_failed_request_forgotten),
    ("C03-R10", "a steps/options keyword of fit_model is applied to the "
     "data before it is stored", r10_settings_describe_the_data),
    ("C03-R11", "non-commuting settings of one request are stored in "
     "dependency order", r11_store_order),
    ("C03-R12", "the fit hash does not depend on how equal setting values "
     "are represented", r12_hash_encoding),
    ("C03-R13", "the requested value compared with the stored setting is "
     "the value that gets stored", r13_tested_value_is_stored),
    ("C03-R14", "the stored hash covers data and settings and is taken "
     "after the last settings write", r14_hash_describes_settings),
    ("C03-R15", "apply_preprocessing runs the request it is given (only "
     "None means the remembered pipeline) and compares both items",
     r15_request_reaches_the_pipeline),
    ("C03-R16", "stored settings are never handed out by reference (an "
     "edited copy given back to fit_model must be seen as a change)",
     r_no_handout),
]
