"""C04 — reported fit outputs are mutually consistent."""
from __future__ import annotations

from .. import fitclauses

EXPLANATION = (
    "Decided by shape, for every curve/model/setting: (R1) both result "
    "arrays are reset to NaN on every path before the fit/no-fit decision, "
    "are written only through the segment mask and only in the branch that "
    "optimises, success=True only there and success=False in the other; "
    "(R2) the 'fit' column is the selected model evaluated with the fitted "
    "parameters and the 'fit residuals' column is the very residual "
    "function that was minimised, with the same abscissa domain, data and "
    "weighting distance, both evaluated before the contact point is "
    "converted back; chi_sqr/params_fitted are the optimiser's; the "
    "columns adopted by fit_model are the fitter's arrays in the right "
    "order; (R3) the generic residual is (data - model) x weights iff "
    "weighting is on, weights = min(|delta - cp|/dist, 1) on a fresh array, "
    "computed on the same abscissa and contact point as the model.")
NOT_DECIDED = [
    "fixed parameters / bounds / expressions are honoured (lmfit's runtime "
    "guarantee)",
    "numerical equality of chi_sqr with the sum of squared residuals",
]


def r2b_columns_adopted(ctx):
    from .c03 import r4_fit_iff_no_hash
    r4_fit_iff_no_hash(ctx)


def r5_bounds_trigger_refit(ctx):
    from .. import fitrules
    fitrules.setitem_invalidation(
        ctx, why=" (new bounds/expressions of an initial parameter do not "
        "lead to a re-fit: the reported parameters violate the stored "
        "bounds)")


def r7_expressions_survive(ctx):
    """lmfit's `Parameter.set(value=...)` (and assigning `.value`) turns an
    expression-constrained parameter into a plain one.  Between the stored
    initial parameters and the optimiser the fitter may therefore write the
    value of `contact_point` only (its unit conversion; a contact point
    defined by an expression is the user's documented risk); writing the
    value of an arbitrary parameter (a loop over names, a computed key)
    freezes dependent parameters at a stale number and the reported
    parameters no longer satisfy their expression.  The fitter also
    installs initial parameters only through FitProperties.__setitem__
    or its own working copy - never behind the hash with restore()."""
    import ast
    from ..astutil import call_name, const_str, norm, walk_no_nested
    from ..guards import conditions_at
    fitm = ctx.repo.mod("fit")
    n = 0
    from ..symres import Resolver
    for q, fn in fitm.funcs.items():
        if not q.startswith("IndentationFitter."):
            continue
        R_ = None
        for node in walk_no_nested(fn, False):
            tgt = None
            if isinstance(node, ast.Call) and isinstance(
                    node.func, ast.Attribute) and node.func.attr == "set":
                recv = node.func.value
                if isinstance(recv, ast.Name) and hasattr(recv, "_parent"):
                    # a local alias of params[<key>]
                    if R_ is None:
                        R_ = Resolver(fn)
                    rv = R_.reaching_value(recv)
                    if isinstance(rv, ast.Subscript):
                        recv = rv
                sets_value = bool(node.args) or any(
                    k.arg == "value" for k in node.keywords)
                if sets_value and isinstance(recv, ast.Subscript):
                    tgt = recv
            elif isinstance(node, ast.Assign) and isinstance(
                    node.targets[0], ast.Attribute) and \
                    node.targets[0].attr == "value" and isinstance(
                        node.targets[0].value, ast.Subscript):
                tgt = node.targets[0].value
            if tgt is None:
                continue
            n += 1
            key = const_str(tgt.slice)
            guarded = any("expr" in a.text for a in conditions_at(node))
            ctx.check(key == "contact_point" or guarded, node,
                      f"{q.split('.')[-1]}: value written for "
                      f"{norm(tgt.slice)[:30]}",
                      f"fit.py:{q} writes the value of parameter "
                      f"`{norm(tgt.slice)[:40]}` of `{norm(tgt.value)[:40]}`"
                      ": lmfit clears the expression of a constrained "
                      "parameter when its value is set, the optimiser then "
                      "treats it as a plain number and the reported "
                      "parameters violate their expression")
        for c in walk_no_nested(fn, False):
            if isinstance(c, ast.Call) and (call_name(c) or "").endswith(
                    ".restore") and c.args and isinstance(
                        c.args[0], ast.Dict):
                keys = [const_str(k) for k in c.args[0].keys]
                ctx.check("params_initial" not in keys, c,
                          f"{q.split('.')[-1]}: restore({keys})",
                          f"fit.py:{q} swaps the initial parameters behind "
                          "the settings (restore bypasses invalidation and "
                          "the copy on store): the optimiser starts from "
                          "parameters that are not the stored ones")
    ctx.floor("parameter value writes in the fitter", n, 2)


def r8_results_from_one_fit(ctx):
    """parameters, chi-square, success flag, hash and the result columns
    come from one and the same fit: fit_properties are replaced as a whole
    only where the columns are written as well (fit_model)"""
    from .c03 import r3_bypass_writers
    r3_bypass_writers(ctx)



def r_no_handout(ctx):
    """the documented get-edit-fit workflow (`p = get_initial_fit_parameters();
    p[..].value = ..; fit_model(params_initial=p)`) only leads to a new fit if
    the stored settings are never handed out: shared with C10-R3"""
    from .c10 import r3_no_handout
    r3_no_handout(ctx)


RULES = [
    ("C04-R1", "NaN unless written; success flag matches the branch",
     fitclauses.clause_nan_unless_written),
    ("C04-R2", "fit and residual columns computed from the reported "
     "parameters in the fit domain", fitclauses.clause_writeback_consistent),
    ("C04-R2b", "fit_model adopts the fitter's arrays under the right "
     "column names", r2b_columns_adopted),
    ("C04-R3", "residual = (data - model) x linear contact-point weights",
     fitclauses.clause_residual_shape),
    ("C04-R4", "the optimiser minimises that residual on the masked data",
     fitclauses.clause_minimize_inputs),
    ("C04-R5", "changed bounds/expressions of the initial parameters "
     "invalidate the results", r5_bounds_trigger_refit),
    ("C04-R6", "the reported contact point is the fitted one converted "
     "back once, value only (bounds and other attributes untouched)",
     fitclauses.clause_gcf_pairing),
    ("C04-R7", "expression constraints survive the way to the optimiser: "
     "the fitter writes the value of contact_point only",
     r7_expressions_survive),
    ("C04-R8", "fit properties are replaced wholesale only together with "
     "the result columns", r8_results_from_one_fit),
    ("C04-R9", "stored settings are never handed out by reference (an "
     "edited copy given back to fit_model must be seen as a change)",
     r_no_handout),
]
