"""C04 — reported fit outputs are mutually consistent."""
from __future__ import annotations

from .. import fitclauses

EXPLANATION = (
    "Decided by shape, for every curve/model/setting: (R1) both result "
    "arrays are reset to NaN on every path before the fit/no-fit decision, "
    "are written only through the segment mask and only in the branch that "
    "optimises, success=True only there and success=False in the other; "
    "(R2) the 'fit' column is the selected model evaluated with the fitted "
    "parameters and the 'fit residuals' column is the very residual "
    "function that was minimised, with the same abscissa domain, data and "
    "weighting distance, both evaluated before the contact point is "
    "converted back; chi_sqr/params_fitted are the optimiser's; the "
    "columns adopted by fit_model are the fitter's arrays in the right "
    "order; (R3) the generic residual is (data - model) x weights iff "
    "weighting is on, weights = min(|delta - cp|/dist, 1) on a fresh array, "
    "computed on the same abscissa and contact point as the model.")
NOT_DECIDED = [
    "fixed parameters / bounds / expressions are honoured (lmfit's runtime "
    "guarantee)",
    "numerical equality of chi_sqr with the sum of squared residuals",
]


def r2b_columns_adopted(ctx):
    from .c03 import r4_fit_iff_no_hash
    r4_fit_iff_no_hash(ctx)


def r5_bounds_trigger_refit(ctx):
    from .. import fitrules
    fitrules.setitem_invalidation(
        ctx, why=" (new bounds/expressions of an initial parameter do not "
        "lead to a re-fit: the reported parameters violate the stored "
        "bounds)")


RULES = [
    ("C04-R1", "NaN unless written; success flag matches the branch",
     fitclauses.clause_nan_unless_written),
    ("C04-R2", "fit and residual columns computed from the reported "
     "parameters in the fit domain", fitclauses.clause_writeback_consistent),
    ("C04-R2b", "fit_model adopts the fitter's arrays under the right "
     "column names", r2b_columns_adopted),
    ("C04-R3", "residual = (data - model) x linear contact-point weights",
     fitclauses.clause_residual_shape),
    ("C04-R4", "the optimiser minimises that residual on the masked data",
     fitclauses.clause_minimize_inputs),
    ("C04-R5", "changed bounds/expressions of the initial parameters "
     "invalidate the results", r5_bounds_trigger_refit),
    ("C04-R6", "the reported contact point is the fitted one converted "
     "back once, value only (bounds and other attributes untouched)",
     fitclauses.clause_gcf_pairing),
]
