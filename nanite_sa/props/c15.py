"""C15 — training sets load clean, aligned, and survive export."""
from __future__ import annotations

import ast

from .. import facts
from ..astutil import (call_name, calls_in, const_str, dotted, kwarg, literal,
                       norm, str_template, str_template_args,
                       walk_no_nested)
from ..cfg import CFG
from ..guards import conditions_at
from ..loader import AnchorError, Undecided
from ..symres import Resolver

EXPLANATION = (
    "Mask algebra and table agreement in rate/rater.py and rate/io.py, for "
    "every training matrix: (R1) row alignment - every row filter of the "
    "sample matrix is applied to the response with the same mask in the "
    "same block, no other statement drops or reorders rows, and imputation "
    "/ inf replacement store only through (row mask, column index); the "
    "NaN-row mask applies isnan elementwise before the row reduction; (R2) "
    "stage order impute -> drop -> replace-inf, imputation target = "
    "zero-rated and NaN, source = zero-rated and not NaN, value = mean of "
    "the source, +inf -> +2*extreme, -inf -> -2*extreme with extreme from "
    "the finite entries; (R3) one name selector: loader columns, rater "
    "columns and the feature vector at rating time are all ordered by "
    "get_feature_names with corresponding arguments; (R4) export and load "
    "agree on file-name templates, column <-> feature name, and the %.2e "
    "format; features and user ratings of an export come from the same "
    "(fresh) read of the container; (R5) sample weights are 1/count per "
    "class, then normalised by their sum.")
NOT_DECIDED = [
    "absence of NaN/inf for every matrix (an all-inf column or a class "
    "without non-NaN reference rows stay as they are)",
    "three-significant-digit equality after the text round trip",
]


KEEP = {"samples", "response", "fnames", "path", "names", "which_type"}


def _lts(ctx):
    m = ctx.repo.mod("rate.rater")
    f = m.func("IndentationRater.load_training_set")
    ctx.analysed(f)
    return m, f


def _block(f, flag):
    for n in f.body:
        if isinstance(n, ast.If) and norm(n.test) == flag:
            return n
    raise AnchorError(f"load_training_set has no `if {flag}:` block")


def _is_column_loop_var(idx, at, R):
    """idx is the variable of an enclosing loop over the feature columns"""
    if not isinstance(idx, ast.Name):
        return False
    lp = getattr(at, "_parent", None)
    while lp is not None:
        if isinstance(lp, ast.For):
            tg = lp.target
            names = [norm(tg)] if isinstance(tg, ast.Name) else [
                norm(e) for e in getattr(tg, "elts", [])]
            if idx.id in names[:1]:
                it = R.text(lp.iter)
                return it in ("range(len(fnames))", "enumerate(fnames)",
                              "range(samples.shape[1])")
        lp = getattr(lp, "_parent", None)
    return False


def r1_row_alignment(ctx):
    m, f = _lts(ctx)
    R = Resolver(f, keep=KEEP)
    # statements that re-bind samples / response after loading
    reb = {"samples": [], "response": []}
    first = {}
    for st in walk_no_nested(f, False):
        if isinstance(st, ast.Assign) and isinstance(st.targets[0], ast.Name)\
                and st.targets[0].id in reb:
            nm = st.targets[0].id
            if isinstance(st.value, ast.Subscript) and norm(
                    st.value.value) == nm:
                reb[nm].append(st)
            else:
                first.setdefault(nm, []).append(st)
    ctx.floor("row filters of the sample matrix", len(reb["samples"]), 1)
    for st in reb["samples"]:
        sl = st.value.slice
        mask = norm(sl.elts[0]) if isinstance(sl, ast.Tuple) else norm(sl)
        cols = norm(sl.elts[1]) if isinstance(sl, ast.Tuple) and len(
            sl.elts) > 1 else ":"
        ctx.check(cols == ":", st, f"row filter keeps all columns ({cols})",
                  "a row filter of the samples also drops columns")
        blk = getattr(st, "_parent")
        partner = [s for s in reb["response"]
                   if getattr(s, "_parent") is blk
                   and norm(s.value.slice) == mask]
        ctx.check(len(partner) == 1, st,
                  f"samples[{mask}] paired with response[{mask}]",
                  f"rows are dropped from the samples with mask `{mask}` "
                  "but not from the response in the same block: features "
                  "and ratings are misaligned from that row on")
        # the NaN-row mask
        mt = R.text(sl.elts[0] if isinstance(sl, ast.Tuple) else sl)
        isn = [c for c in ast.walk(ast.parse(mt, mode="eval"))
               if isinstance(c, ast.Call) and call_name(c) in ("np.isnan",
                                                               "numpy.isnan")]
        ok = bool(isn) and all(norm(c.args[0]) == "samples" for c in isn)
        red = "axis=1" in mt
        neg = mt.startswith("~") or "== 0" in mt or "logical_not" in mt
        ctx.check(ok and red and neg, st, f"NaN-row mask = {mt[:70]}",
                  "the row mask is not 'no element of the row is NaN' "
                  "(isnan applied elementwise, reduced along axis 1, "
                  "negated): e.g. isnan of the row sum also drops rows "
                  "holding +inf and -inf, which contain no NaN")
    for st in reb["response"]:
        blk = getattr(st, "_parent")
        mask = norm(st.value.slice)
        partner = [s for s in reb["samples"] if getattr(s, "_parent") is blk]
        ctx.check(bool(partner), st, f"response[{mask}] paired with samples",
                  "responses are dropped without dropping the sample rows")
    # element stores only through (mask, column)
    for st in walk_no_nested(f, False):
        if isinstance(st, (ast.Assign, ast.AugAssign)):
            tg = st.targets if isinstance(st, ast.Assign) else [st.target]
            for t in tg:
                if isinstance(t, ast.Subscript) and norm(t.value) in (
                        "samples", "response"):
                    ok = norm(t.value) == "samples" and isinstance(
                        t.slice, ast.Tuple) and len(t.slice.elts) == 2 and \
                        _is_column_loop_var(t.slice.elts[1], st, R)
                    ctx.check(ok, st, f"element store {norm(t)}",
                              "values are overwritten other than through "
                              "(row mask, feature column)")
        if isinstance(st, ast.Call) and isinstance(st.func, ast.Attribute) \
                and st.func.attr in ("sort", "shuffle", "resize") and \
                norm(st.func.value) in ("samples", "response"):
            ctx.fail(st, norm(st)[:40], "rows are reordered in place")
    for c in calls_in(f):
        if call_name(c) in ("np.random.shuffle", "np.random.permutation",
                            "np.sort", "np.argsort"):
            ctx.fail(c, norm(c)[:40], "rows are reordered")
    # the returned objects are these
    rets = [r for r in walk_no_nested(f, False) if isinstance(r, ast.Return)]
    ok = bool(rets) and R.text(rets[-1].value).replace(" ", "") in (
        "[samples,response]", "res")
    res_def = [st for st in walk_no_nested(f, False)
               if isinstance(st, ast.Assign) and norm(st.targets[0]) == "res"]
    ok = ok or (bool(res_def) and norm(res_def[0].value) ==
                "[samples, response]")
    ctx.check(ok, f, "returns [samples, response(, names)]",
              "the loader returns something else than the cleaned pair")


def r2_stages(ctx):
    m, f = _lts(ctx)
    imp = _block(f, "impute_zero_rated_nan")
    drop = _block(f, "remove_nan")
    inf = _block(f, "replace_inf")
    pos = {id(n): i for i, n in enumerate(f.body)}
    ctx.check(pos[id(imp)] < pos[id(drop)] < pos[id(inf)], f,
              "stage order impute -> drop NaN rows -> replace inf",
              "the cleaning stages run in a different order (imputation "
              "after dropping never sees the NaN rows; inf replacement "
              "before dropping computes extremes over rows that vanish)")
    R = Resolver(f, keep=KEEP)
    # imputation
    st = [s for s in ast.walk(imp) if isinstance(s, ast.Assign)
          and isinstance(s.targets[0], ast.Subscript)
          and norm(s.targets[0].value) == "samples"]
    ctx.floor("imputation store", len(st), 1)
    s0 = st[0]
    cv = norm(s0.targets[0].slice.elts[1])
    tgt = R.text(s0.targets[0].slice.elts[0]).replace(f"[:, {cv}]",
                                                      "[:, ii]")
    def conj(text):
        """the set of conjuncts of a mask expression (text)"""
        try:
            e = ast.parse(text, mode="eval").body
        except SyntaxError:
            return frozenset([text])
        out = []

        def go(x):
            if isinstance(x, ast.BinOp) and isinstance(x.op, ast.BitAnd):
                go(x.left)
                go(x.right)
            elif isinstance(x, ast.Call) and call_name(x) in (
                    "np.logical_and", "numpy.logical_and"):
                for a_ in x.args:
                    go(a_)
            else:
                out.append(norm(x).replace("np.logical_not(", "~(")
                           if not (isinstance(x, ast.Call) and call_name(x)
                                   == "np.logical_not")
                           else "~" + norm(x.args[0]))
        go(e)
        return frozenset(out)
    ctx.check(conj(tgt) == {"response == 0", "np.isnan(samples[:, ii])"},
              s0, f"imputation target rows: {tgt[:70]}",
              "imputation does not target exactly the zero-rated rows whose "
              "feature is NaN")
    val = R.text(s0.value).replace(f"[:, {cv}]", "[:, ii]")
    okv = False
    try:
        ve = ast.parse(val, mode="eval").body
        if isinstance(ve, ast.Call) and call_name(ve) == "np.mean" and len(
                ve.args) == 1 and isinstance(ve.args[0], ast.Subscript) and \
                norm(ve.args[0].value) == "samples[:, ii]":
            okv = conj(norm(ve.args[0].slice)) == {
                "response == 0", "~np.isnan(samples[:, ii])"}
    except SyntaxError:
        pass
    ctx.check(okv, s0, f"imputed value: {val[:80]}",
              "the imputed value is not the mean of the feature over the "
              "other zero-rated, non-NaN samples")
    conds = conditions_at(s0, stop=imp)
    txt = sorted(R.text(a.node) for a in conds if a.pol)
    ctx.check(len(txt) == 2 and all(t.startswith("np.any(") for t in txt), s0,
              "imputation only if targets and references exist",
              "imputation is not guarded by the existence of target and "
              "reference rows")
    # inf replacement
    stores = [s for s in ast.walk(inf) if isinstance(s, ast.Assign)
              and isinstance(s.targets[0], ast.Subscript)
              and norm(s.targets[0].value) == "samples"]
    ctx.check(len(stores) == 2, inf, f"{len(stores)} inf replacements",
              "positive and negative infinity are not both replaced")
    R2 = Resolver(f, keep=KEEP)
    for s in stores:
        cv = norm(s.targets[0].slice.elts[1])
        rows = R2.text(s.targets[0].slice.elts[0]).replace(
            f"[:, {cv}]", "[:, ii]")
        v = R2.text(s.value).replace(f"[:, {cv}]", "[:, ii]")
        ext = "np.nanmax(np.abs(samples[:, ii][~np.isinf(samples[:, ii])]))"
        if "isposinf" in rows:
            ctx.check(v in (f"2 * {ext}", f"{ext} * 2"), s,
                      f"+inf -> {v[:60]}",
                      "+inf is not replaced by twice the largest finite "
                      "magnitude of the feature")
        elif "isneginf" in rows:
            ctx.check(v in (f"-2 * {ext}", f"-(2 * {ext})", f"{ext} * -2"),
                      s, f"-inf -> {v[:60]}",
                      "-inf is not replaced by minus twice the largest "
                      "finite magnitude of the feature")
        else:
            ctx.fail(s, f"rows {rows[:40]}", "unrecognised inf replacement")
    # defaults of the flags
    d = dict(zip([a.arg for a in f.args.args][-len(f.args.defaults):],
                 f.args.defaults))
    for flag in ("replace_inf", "impute_zero_rated_nan", "remove_nan"):
        ctx.check(flag in d and literal(d[flag]) is True, f,
                  f"{flag} defaults to True",
                  f"default of {flag} changed: the default training set is "
                  "no longer cleaned")


def r3_name_selector(ctx):
    from .c17 import names_sorted
    names_sorted(ctx)
    m, f = _lts(ctx)
    R = Resolver(f, keep=KEEP)
    fn = [st for st in walk_no_nested(f, False) if isinstance(st, ast.Assign)
          and norm(st.targets[0]) == "fnames"]
    ok = len(fn) == 1 and norm(fn[0].value) == \
        "cls.get_feature_names(names=names, which_type=which_type)"
    ctx.check(ok, f, "loader columns = get_feature_names(which_type, names)",
              "the loader's columns are not selected by get_feature_names")
    wt = [st for st in walk_no_nested(f, False) if isinstance(st, ast.Assign)
          and norm(st.targets[0]) == "which_type"]
    ctx.check(bool(wt) and norm(wt[0].value) == "['continuous']", f,
              "default which_type = ['continuous']",
              "default feature type of the training set changed")
    # files are loaded in fnames order, one column each
    loads = [c for c in calls_in(f) if call_name(c) == "np.loadtxt"]
    ctx.check(len(loads) == 2, f, "one loadtxt per feature + response",
              "unexpected file reads")
    cat = [c for c in calls_in(f) if call_name(c) == "np.concatenate"]
    ctx.check(bool(cat) and norm(kwarg(cat[0], "axis")) == "1", f,
              "feature columns concatenated along axis 1 in fnames order",
              "feature columns are not concatenated as columns")
    tmpl = [str_template(n) for n in ast.walk(f)
            if isinstance(n, (ast.JoinedStr, ast.Call))
            and str_template(n) is not None]
    ctx.check("train_{}.txt" in tmpl, f, "feature file train_<name>.txt",
              "feature file name template changed")
    ctx.check(any(isinstance(n, ast.Constant) and n.value ==
                  "train_response.txt" for n in ast.walk(f)), f,
              "response file train_response.txt", "response file name "
              "changed")
    # rater side
    init = m.func("IndentationRater.__init__")
    ctx.analysed(init)
    ns = [st for st in walk_no_nested(init, False)
          if isinstance(st, ast.Assign) and norm(st.targets[0]) in (
              "names", "self.names")]
    txt = [norm(s.value) for s in ns]
    ctx.check("self.get_feature_names(names=names, which_type='all')" in txt
              and "sorted(names)" in txt, init,
              "rater columns = sorted get_feature_names(names)",
              "the rater's feature names are not the sorted selected names")
    rate = m.func("IndentationRater.rate")
    ctx.analysed(rate)
    cf = [c for c in calls_in(rate) if call_name(c) == "self.compute_features"]
    ctx.floor("compute_features calls in rate()", len(cf), 2)
    kinds = set()
    from ..symres import Resolver as _Rr
    Rr_ = _Rr(rate)
    for c in cf:
        kw = {k.arg: Rr_.text(k.value) for k in c.keywords}
        ctx.check(kw.get("names") == "self.names", c,
                  f"rate(): compute_features(names={kw.get('names')})",
                  "features at rating time are not restricted to the "
                  "rater's names")
        wt = kw.get("which_type")
        # a module-level name for the type selection
        if wt in m.assigns and len(m.assigns[wt]) == 1:
            wt = norm(m.assigns[wt][-1])
        if isinstance(wt, str):
            wt = wt.replace("('continuous',)", "['continuous']").replace(
                "['binary']", "'binary'")
        kinds.add(wt)
    ctx.check(kinds == {"['continuous']", "'binary'"}, rate,
              f"rate(): feature types {sorted(kinds)}",
              "rating no longer separates continuous (regressor input) and "
              "binary (exclusion) features")
    gr = m.func("get_rater")
    ctx.analysed(gr)
    l = [c for c in calls_in(gr)
         if (call_name(c) or "").endswith("load_training_set")]
    r = [c for c in calls_in(gr) if call_name(c) == "IndentationRater"]
    ok = bool(l) and bool(r) and norm(kwarg(l[0], "names")) == "names" and \
        norm(kwarg(r[0], "names")) == "names" and \
        norm(kwarg(r[0], "training_set")) == "training_set"
    ctx.check(ok, gr, "get_rater passes the same names to loader and rater",
              "loader and rater receive different feature selections")
    if fn:
        rn = [st for st in walk_no_nested(f, False)
              if isinstance(st, ast.Expr) and isinstance(st.value, ast.Call)
              and norm(st.value) == "res.append(fnames)"]
        rn += [r for r in walk_no_nested(f, False)
               if isinstance(r, ast.Return) and isinstance(
                   r.value, (ast.List, ast.Tuple))
               and [norm(e) for e in r.value.elts] == ["samples", "response",
                                                       "fnames"]]
        rn = [x for x in rn if any(a.pol and a.text == "ret_names"
                                   for a in conditions_at(x))]
        ctx.check(bool(rn), f, "ret_names returns the column names",
                  "ret_names does not return the loaded column names")


def r4_export_load(ctx):
    io = ctx.repo.mod("rate.io")
    ex = io.func("RateManager.export_training_set")
    ctx.analysed(ex)
    R = Resolver(ex)
    raters = [st for st in walk_no_nested(ex, False)
              if isinstance(st, ast.Assign) and norm(st.value) in (
                  "rater.IndentationRater.get_feature_funcs()",
                  "rater.IndentationRater.get_feature_names()")]
    by_name = bool(raters) and norm(raters[0].value).endswith(
        "get_feature_names()")
    ctx.check(bool(raters), ex,
              "exported columns = all features in get_feature_names order",
              "the exported feature list is not get_feature_funcs()/"
              "get_feature_names() of all features")
    saves = [c for c in calls_in(ex) if call_name(c) == "np.savetxt"]
    if not saves:
        raise Undecided("export_training_set: the files are written by a "
                        "helper that is not placed at its call (the pairing "
                        "of column index and file name is not understood)")
    ctx.check(len(saves) == 2, ex, "one file per feature plus the response",
              "unexpected number of savetxt calls")
    for c in saves:
        ctx.check(norm(kwarg(c, "fmt")) == "'%.2e'", c,
                  f"format {norm(kwarg(c, 'fmt'))}",
                  "export format is not %.2e (three significant digits)")
    loops = [n for n in walk_no_nested(ex, False) if isinstance(n, ast.For)]
    ok = False
    rname = norm(raters[0].targets[0]) if raters else "raters"
    for lp in loops:
        if isinstance(lp.iter, ast.Call) and call_name(lp.iter) == \
                "enumerate" and norm(lp.iter.args[0]) == rname:
            ii = norm(lp.target.elts[0])
            second = lp.target.elts[1]
            if by_name:
                name_expr = norm(second)
            elif isinstance(second, ast.Tuple):
                name_expr = norm(second.elts[0])
            else:
                name_expr = f"{norm(second)}[0]"
            tm = [(str_template(n), str_template_args(n))
                  for st in lp.body for n in ast.walk(st)
                  if isinstance(n, (ast.JoinedStr, ast.Call))
                  and str_template(n) == "train_{}.txt"]
            sv = [c for st in lp.body for c in ast.walk(st)
                  if isinstance(c, ast.Call) and call_name(c) == "np.savetxt"]
            ok = any(a == [name_expr] for _, a in tm) and bool(sv) and \
                (f"[:, {ii}]" in norm(sv[0].args[1])
                 or f"[:, {ii}]" in Resolver(ex, keep={ii}).text(
                     sv[0].args[1]))
    if not ok and not any(
            isinstance(c, ast.Call) and call_name(c) == "np.savetxt"
            and any(c in ast.walk(lp_) for lp_ in loops)
            for c in calls_in(ex)):
        raise Undecided("export_training_set: the columns are not written "
                        "inside the loop over the feature functions (the "
                        "pairing of column index and file name is not "
                        "understood)")
    ctx.check(ok, ex, "column i is written to train_<name of feature i>.txt",
              "exported column index and feature name do not correspond")
    ok = any("train_response.txt" in norm(st) for st in walk_no_nested(
        ex, False) if isinstance(st, ast.Assign)) or any(
        c.args and "train_response.txt" in norm(c.args[0]) for c in saves)
    ctx.check(ok, ex, "response written to train_response.txt",
              "response file name differs from the loader's")
    usr = [st for st in walk_no_nested(ex, False) if isinstance(st, ast.Assign)
           and norm(st.value) in ("self.get_rates(which='user')",
                                  "self.get_rates('user')",
                                  "self.get_rates()")]
    ctx.check(bool(usr), ex,
              "response = user ratings", "response is not the user ratings")
    # samples: features of every stored curve in container order
    gs = io.funcs.get("RateManager._get_samples")
    gs_call = "RateManager._get_samples"
    if gs is None:
        # the static method moved to module level (or was renamed): the
        # one function of rate/io.py that computes the features
        cands = [(q, f_) for q, f_ in io.funcs.items()
                 if any(call_name(c) and call_name(c).endswith(
                     ".compute_features") for c in calls_in(f_))
                 and "." not in q]
        if len(cands) != 1:
            raise AnchorError("rate/io.py: the function computing the "
                              "exported samples was not found")
        gs_call, gs = cands[0]
    ctx.analysed(gs)
    ok = any(call_name(c) == "idr.compute_features" and len(c.args) == 1
             and not c.keywords for c in calls_in(gs))
    ctx.check(ok, gs, "samples = all features of each stored curve",
              "exported samples are not compute_features(curve) with all "
              "features")
    # one row per stored curve: the row is appended on every iteration
    _one_row_per_item(ctx, gs, "the exported sample matrix")
    # same snapshot for features and ratings
    gr = io.func("RateManager.get_rates")
    ctx.analysed(gr)
    cached = [n for n in ast.walk(gr) if isinstance(n, ast.Attribute)
              and dotted(n) in ("self.ratings", "self._ratings",
                                "self.datasets")]
    sm = io.func("RateManager.samples")
    fresh_samples = any(call_name(c) in (gs_call, "RateManager") and c.args and
                        norm(c.args[0]) == "self.path" for c in calls_in(sm))
    fresh_rates = any(call_name(c) == "load" and norm(c.args[0]) ==
                      "self.path" for c in calls_in(gr))
    ctx.check(fresh_samples == fresh_rates and not (cached and fresh_samples),
              gr, "features and user ratings read from the same snapshot",
              "exported features are recomputed from the container file on "
              "every call while the user ratings come from the manager's "
              "cached first read (or vice versa): after re-rating a curve "
              "the exported response no longer matches the container")
    ur = [n for n in ast.walk(gr) if isinstance(n, ast.Subscript)
          and const_str(n.slice) == "rating"]
    ctx.check(bool(ur), gr, "user rates = stored 'rating' of each entry",
              "get_rates('user') does not return the stored ratings")


def _one_row_per_item(ctx, fn, what):
    """in the loop(s) of `fn` that fill the returned list, the append is
    reached on every iteration (no skip, no early exit): rows stay paired
    with the ratings, which enumerate every stored curve"""
    from ..cfg import CFG
    loops = [n for n in walk_no_nested(fn, False) if isinstance(n, ast.For)]
    found = 0
    for lp in loops:
        apps = [c for st in lp.body for c in ast.walk(st)
                if isinstance(c, ast.Call) and isinstance(
                    c.func, ast.Attribute) and c.func.attr == "append"]
        if not apps:
            continue
        found += 1
        skip = [n for st in lp.body for n in ast.walk(st)
                if isinstance(n, (ast.Continue, ast.Break, ast.Return))]
        cond = []
        for c in apps:
            cur = c
            while cur is not lp and cur is not None:
                par = getattr(cur, "_parent", None)
                if isinstance(par, (ast.If, ast.While, ast.ExceptHandler,
                                    ast.IfExp)) or (
                        isinstance(par, ast.For) and par is not lp):
                    cond.append(norm(getattr(par, "test", par))[:50])
                cur = par
        how = f"`{norm(skip[0])}`" if skip else (
            f"append only under `{cond[0]}`" if cond else "")
        ctx.check(not skip and not cond, lp,
                  f"{fn.name}: one row per stored curve",
                  f"{fn.name} skips curves ({how}): {what} has fewer rows "
                  "than there are stored ratings, every later row is "
                  "paired with the rating of another curve")
    if not found and not any(isinstance(n, (ast.ListComp, ast.GeneratorExp))
                             for n in ast.walk(fn)):
        raise Undecided(f"{fn.name}: row-building loop not found")
    for n in ast.walk(fn):
        if isinstance(n, (ast.ListComp, ast.GeneratorExp)) and any(
                g.ifs for g in n.generators):
            ctx.fail(n, f"{fn.name}: filtered comprehension",
                     f"{fn.name} filters the stored curves: {what} is no "
                     "longer paired with the stored ratings")


def r5_weights(ctx):
    m = ctx.repo.mod("rate.rater")
    f = m.func("IndentationRater.compute_sample_weight")
    ctx.analysed(f)
    R = Resolver(f)
    st = [s for s in walk_no_nested(f, False) if isinstance(s, ast.Assign)
          and isinstance(s.targets[0], ast.Subscript)
          and norm(s.targets[0].value) == "weight"]
    ctx.floor("class weight store", len(st), 1)
    s0 = st[0]
    # the loop over the rating classes that holds the store
    lp0 = getattr(s0, "_parent", None)
    while lp0 is not None and not isinstance(lp0, ast.For):
        lp0 = getattr(lp0, "_parent", None)
    if lp0 is None or not isinstance(lp0.target, ast.Name):
        raise Undecided("compute_sample_weight: the class weights are not "
                        "stored in a loop over the rating classes")
    ii = lp0.target.id
    if any(isinstance(n, (ast.DictComp, ast.NamedExpr))
           for n in ast.walk(f)):
        raise Undecided("compute_sample_weight: class weights are taken "
                        "from a comprehension-built table")
    R = Resolver(f, keep={ii})
    idx = R.text(s0.targets[0].slice)
    val = R.text(s0.value)
    ctx.check(idx in (f"y == {ii}", f"{ii} == y") and val in (
        f"1 / np.sum(y == {ii})", f"1 / np.sum({ii} == y)",
        f"1 / np.count_nonzero(y == {ii})", f"1.0 / np.sum(y == {ii})"), s0,
              f"weight[{idx}] = {val}",
              "class members do not receive 1/count of their class")
    conds = conditions_at(s0)
    ctx.check(any(a.pol and R.text(a.node) in (
        f"np.sum(y == {ii})", f"np.sum(y == {ii}) > 0",
        f"np.sum(y == {ii}) != 0", f"np.count_nonzero(y == {ii})",
        f"np.any(y == {ii})") for a in conds), s0,
              "only for classes that occur",
              "empty classes divide by zero")
    nrm = [s for s in walk_no_nested(f, False) if isinstance(s, ast.AugAssign)
           and norm(s.target) == "weight"]
    ok = len(nrm) == 1 and isinstance(nrm[0].op, ast.Div) and \
        norm(nrm[0].value) == "np.sum(weight)"
    ctx.check(ok, f, "weights normalised by their sum",
              "weights are not normalised to sum to one")
    z = [s for s in walk_no_nested(f, False) if isinstance(s, ast.Assign)
         and norm(s.targets[0]) == "weight"]
    ctx.check(bool(z) and (call_name(z[0].value) or "") == "np.zeros", f,
              "weights start at zero (non-negative)", "initial weights "
              "changed")
    loops = [n for n in walk_no_nested(f, False) if isinstance(n, ast.For)]
    ok = bool(loops) and R.text(lp0.iter).replace(" ", "") in (
        "range(11)", "range(0,11)", "[0,1,2,3,4,5,6,7,8,9,10]",
        "(0,1,2,3,4,5,6,7,8,9,10)", "range(0,11,1)")
    ctx.check(ok, f, "classes 0..10", "rating classes are not 0..10")
    rets = [r for r in walk_no_nested(f, False) if isinstance(r, ast.Return)]
    ctx.check(bool(rets) and norm(rets[-1].value) == "weight", f,
              "returns the weights", "returns something else")


def r6_container_reader(ctx):
    """export_training_set computes its features from curves that
    load_hdf5 rebuilds: writer and reader tables of the container must
    agree (shared with C16-R1)."""
    from .c16 import r1_tables_agree
    r1_tables_agree(ctx)


def r7_row_arrays_have_rows(ctx):
    """Every array read from a per-sample text file is handled row-wise
    (masked with the valid-row mask, compared with 0 element by element):
    it must be read with at least one dimension.  np.loadtxt returns a 0-d
    array for a one-line file, and `response[valid]` then raises
    IndexError - a training set with a single sample cannot be loaded."""
    m = ctx.repo.mod("rate.rater")
    f = m.func("IndentationRater.load_training_set")
    ctx.analysed(f)
    n = 0
    for st in walk_no_nested(f, False):
        if not isinstance(st, ast.Assign) or len(st.targets) != 1 or \
                not isinstance(st.targets[0], ast.Name):
            continue
        calls = [c for c in ast.walk(st.value) if isinstance(c, ast.Call)
                 and call_name(c) in ("np.loadtxt", "numpy.loadtxt",
                                      "np.genfromtxt")]
        if not calls:
            continue
        name = st.targets[0].id
        # row-wise use of the name (or of what it is concatenated into)
        rowwise = any(isinstance(x, ast.Subscript) and isinstance(
            x.value, ast.Name) and x.value.id == name
            for x in walk_no_nested(f, False))
        if not rowwise and not isinstance(st.value, ast.Call):
            rowwise = True          # a list of per-feature columns
        for c in calls:
            n += 1
            nd = kwarg(c, "ndmin")
            wrapped = any(isinstance(w, ast.Call) and call_name(w) in (
                "np.atleast_1d", "np.atleast_2d") and any(
                    x is c for x in ast.walk(w)) for w in ast.walk(st.value))
            ok = (nd is not None and isinstance(literal(nd), int)
                  and literal(nd) >= 1) or wrapped or not rowwise
            ctx.check(ok, c, f"`{name}` read with at least one dimension",
                      f"load_training_set reads `{name}` with "
                      f"`{norm(c)[:60]}` and handles it row by row: for a "
                      "training set with a single sample np.loadtxt "
                      "returns a 0-d array and the row mask raises "
                      "IndexError - the set cannot be loaded")
    ctx.floor("text files read in load_training_set", n, 2)


RULES = [
    ("C15-R1", "row filters applied to samples and response alike; NaN-row "
     "mask elementwise", r1_row_alignment),
    ("C15-R2", "stage order and imputation / inf replacement masks",
     r2_stages),
    ("C15-R3", "one name selector for loader, rater and rating",
     r3_name_selector),
    ("C15-R4", "export and load tables agree; same snapshot",
     r4_export_load),
    ("C15-R5", "class-balanced weights by shape", r5_weights),
    ("C15-R6", "curves rebuilt from a rating container (the source of an "
     "export) carry every stored column and setting", r6_container_reader),
    ("C15-R7", "per-sample text files are read with at least one dimension "
     "(a single-sample training set loads)", r7_row_arrays_have_rows),
]
