"""C13 — every registered model obeys the structural model contract."""
from __future__ import annotations

import ast

from .. import effects, facts, fitclauses
from ..astutil import (call_name, calls_in, dotted, func_params, norm,
                       walk_no_nested)
from ..cfg import CFG
from ..guards import conditions_at
from ..loader import AnchorError, Undecided
from ..symres import Resolver

EXPLANATION = (
    "Decided by shape: (R1) the direction wrapper computes one orientation "
    "flag from the original abscissa (first < last), reverses the input "
    "view and the output under that same flag, and calls the user function "
    "exactly once with the (possibly reversed) abscissa and the parameter "
    "values; (R2) default `residual`/`model` wrappers are attached iff the "
    "module lacks them, are built from model_func, and are what "
    "NaniteFitModel exposes; (R3) for the shipped models: abscissa and "
    "contact point enter only through their difference (translation "
    "covariance), the baseline enters once additively, force minus baseline "
    "is homogeneous of degree 1 in the moduli jointly, every contact term "
    "has positive depth degree (continuity at contact), and no argument is "
    "mutated; (R4) the default residual is (data - model) x linear "
    "contact-point weights and routes through the direction-agnostic model "
    "wrapper.")
NOT_DECIDED = [
    "monotonicity of force with depth up to the tip radius (sign of a "
    "derivative over a real interval)",
    "bodies of user-supplied model functions (only the generated wrappers "
    "around them are analysed)",
]


def r1_direction_wrapper(ctx):
    """Path enumeration over model_direction_agnostic (if-structured, no
    loops): on every path the user function is called exactly once; when
    the abscissa is ascending (first < last, tested on the *given*
    abscissa) the function receives the reversed view and the result is
    reversed back, otherwise neither."""
    rm = ctx.repo.mod("model.residuals")
    fn = rm.func("model_direction_agnostic")
    ctx.analysed(fn)
    params = func_params(fn)
    if len(params) < 3:
        raise Undecided("model_direction_agnostic signature changed")
    mf, pv, xv = params[0], params[1], params[2]
    R = Resolver(fn)
    rev_forms = (f"{xv}[::-1]",)
    asc = (f"{xv}[0] < {xv}[-1]", f"{xv}[-1] > {xv}[0]")
    desc = (f"{xv}[0] > {xv}[-1]", f"{xv}[-1] < {xv}[0]",
            f"{xv}[0] >= {xv}[-1]", f"{xv}[-1] <= {xv}[0]")
    paths = []     # (asc|None, calls, in_rev, out_rev, node)

    def orient(test, st):
        """(is_orientation_test, value_if_true, stale)"""
        t = test
        if isinstance(t, ast.UnaryOp) and isinstance(t.op, ast.Not):
            is_o, val, stale = orient(t.operand, st)
            return is_o, (None if val is None else not val), stale
        if isinstance(t, ast.Name):
            v = R.reaching_value(t)
            if v is not None:
                t2 = norm(v)
                if t2 in asc:
                    return True, True, False
                if t2 in desc:
                    return True, False, False
            return False, None, False
        tt = norm(t)
        if tt in asc:
            return True, True, True
        if tt in desc:
            return True, False, True
        return False, None, False

    def call_info(c, state):
        got = {kw.arg: kw.value for kw in c.keywords if kw.arg}
        arg = got.get("delta") or (c.args[0] if c.args else None)
        if arg is None:
            return None
        t = norm(arg)
        star = [R.text(kw.value) for kw in c.keywords if kw.arg is None]
        okp = star == [f"{pv}.valuesdict()"]
        if t == xv:
            return state["xrev"], okp
        if t in rev_forms:
            return (not state["xrev"]), okp
        if isinstance(arg, ast.Subscript) and norm(arg.value) == xv and \
                isinstance(arg.slice, ast.Name):
            pv_ = R.reaching_value(arg.slice)
            # (a reversed sorting permutation is a permutation too)
            while isinstance(pv_, ast.Subscript) and norm(
                    pv_.slice) == "::-1":
                pv_ = pv_.value
            if isinstance(pv_, ast.Call) and (call_name(pv_) or "").endswith(
                    "argsort"):
                return ("perm", arg.slice.id), okp
        if isinstance(arg, ast.Name) and arg.id in state["views"]:
            return state["views"][arg.id], okp
        return None

    def ret_value(v, state, node):
        if isinstance(v, ast.IfExp):
            is_o, val, stale = orient(v.test, node)
            for branch, pol in ((v.body, True), (v.orelse, False)):
                s2 = dict(state, views=dict(state["views"]),
                          results=dict(state["results"]))
                if is_o and state["asc"] is not None and not (
                        stale and state["xrev"]) and \
                        (val == pol) != state["asc"]:
                    continue      # infeasible: orientation already known
                if is_o:
                    if stale and s2["xrev"]:
                        s2["stale"] = True
                    s2["asc"] = (val == pol)
                ret_value(branch, s2, node)
            return
        if isinstance(v, ast.Call) and call_name(v) == mf:
            ci = call_info(v, state)
            if ci is None:
                raise Undecided("unrecognised call of the model function")
            paths.append((state["asc"], state["calls"] + 1, ci[0], False,
                          ci[1], state["stale"], node))
            return
        if isinstance(v, ast.Subscript) and isinstance(
                v.value, ast.Call) and call_name(v.value) == mf and \
                norm(v.slice) == "::-1":
            ci = call_info(v.value, state)
            if ci is None:
                raise Undecided("unrecognised call of the model function")
            paths.append((state["asc"], state["calls"] + 1, ci[0], True,
                          ci[1], state["stale"], node))
            return
        if isinstance(v, ast.Subscript) and isinstance(
                v.slice, (ast.Name, ast.Call)):
            # result (or direct call) indexed by a permutation
            inner = v.value
            src = None
            if isinstance(inner, ast.Call) and call_name(inner) == mf:
                ci = call_info(inner, state)
                if ci is not None:
                    src = (ci[0], ci[1], state["calls"] + 1)
            elif isinstance(inner, ast.Name) and inner.id in state["results"]:
                src = (state["results"][inner.id][0], state["okp"],
                       state["calls"])
            if src is not None and isinstance(src[0], tuple):
                pname = src[0][1]
                stxt = norm(v.slice)
                how = "perm_inverse" if stxt in (
                    f"np.argsort({pname})", f"{pname}.argsort()") else (
                    "perm_again" if stxt == pname else "perm_other")
                paths.append((state["asc"], src[2], src[0], how, src[1],
                              state["stale"], node))
                return
        t = norm(v)
        for rn, (rrev, orev) in state["results"].items():
            if t == rn:
                paths.append((state["asc"], state["calls"], rrev, orev,
                              state["okp"], state["stale"], node))
                return
            if t == f"{rn}[::-1]":
                paths.append((state["asc"], state["calls"], rrev, not orev,
                              state["okp"], state["stale"], node))
                return
        raise Undecided(f"unrecognised return value {t[:50]}")

    def run(stmts, state):
        for i, st in enumerate(stmts):
            if isinstance(st, ast.If):
                is_o, val, stale = orient(st.test, st)
                for body, pol in ((st.body, True), (st.orelse, False)):
                    s2 = dict(state, views=dict(state["views"]),
                              results=dict(state["results"]))
                    if is_o and state["asc"] is not None and not (
                            stale and state["xrev"]) and \
                            (val == pol) != state["asc"]:
                        continue  # infeasible: orientation already known
                    if is_o:
                        if stale and s2["xrev"]:
                            s2["stale"] = True
                        s2["asc"] = (val == pol)
                    run(list(body) + list(stmts[i + 1:]), s2)
                return
            if isinstance(st, ast.Return):
                ret_value(st.value, state, st)
                return
            if isinstance(st, ast.Assign) and len(st.targets) == 1 and \
                    isinstance(st.targets[0], ast.Name):
                tgt = st.targets[0].id
                v = st.value
                if isinstance(v, ast.Call) and call_name(v) == mf:
                    ci = call_info(v, state)
                    if ci is None:
                        raise Undecided("unrecognised call of the model "
                                        "function")
                    state["calls"] += 1
                    state["results"][tgt] = (ci[0], False)
                    state["okp"] = ci[1]
                    continue
                t = norm(v)
                # r2 = r[::-1] / r = r[::-1] / r2 = r
                hit = False
                for rn, (rrev, orev) in list(state["results"].items()):
                    if t == f"{rn}[::-1]":
                        state["results"][tgt] = (rrev, not orev)
                        hit = True
                    elif t == rn:
                        state["results"][tgt] = (rrev, orev)
                        hit = True
                if hit:
                    continue
                if tgt == xv and t in rev_forms:
                    state["xrev"] = not state["xrev"]
                    continue
                if t in rev_forms:
                    state["views"][tgt] = not state["xrev"]
                    continue
                if t == xv:
                    state["views"][tgt] = state["xrev"]
                    continue
                if tgt == xv:
                    raise Undecided(f"abscissa re-bound to {t[:40]}")
                continue
            if isinstance(st, (ast.Expr, ast.Pass)):
                continue
            raise Undecided(f"statement not understood: {norm(st)[:50]}")
        paths.append((state["asc"], state["calls"], None, None,
                      state["okp"], state["stale"], fn))

    body = [s for s in fn.body if not (isinstance(s, ast.Expr) and isinstance(
        s.value, ast.Constant))]
    run(body, {"asc": None, "calls": 0, "xrev": False, "views": {},
               "results": {}, "okp": True, "stale": False})
    ctx.floor("paths through model_direction_agnostic", len(paths), 2)
    seen_asc = set()
    for (a, calls, in_rev, out_rev, okp, stale, node) in paths:
        seen_asc.add(a)
        label = {True: "ascending", False: "descending",
                 None: "orientation not tested"}[a]
        ctx.check(calls == 1, node, f"{label}: user function called "
                  f"{calls}x",
                  f"on the path for {label} abscissa the user model "
                  f"function is called {calls} times")
        if calls != 1 or in_rev is None:
            continue
        ctx.check(okp, node, f"{label}: parameter values passed",
                  "the user function does not receive the parameter values")
        ctx.check(not stale, node, f"{label}: orientation of the given "
                  "abscissa", "the orientation test is evaluated again "
                  "after the abscissa name was re-bound to the reversed "
                  "view: the output is never reversed back")
        if isinstance(in_rev, tuple):
            ctx.check(out_rev == "perm_inverse", node,
                      f"{label}: output restored with the inverse "
                      "permutation",
                      f"for an {label} abscissa the user function sees the "
                      f"data sorted by `{in_rev[1]}` and the output is "
                      + ("indexed by the same permutation again" if out_rev
                         == "perm_again" else "not restored by its inverse")
                      + ": the inverse of a sorting permutation is "
                      f"np.argsort({in_rev[1]}); applying it twice pairs "
                      "model values with the wrong samples whenever the "
                      "abscissa is not strictly monotonic")
            continue
        if a is None:
            ctx.fail(node, f"{label}", "a path returns without the "
                     "orientation of the abscissa having been tested")
            continue
        ctx.check(in_rev == a, node,
                  f"{label}: user function sees "
                  f"{'reversed' if in_rev else 'given'} order",
                  f"for an {label} abscissa the user function receives the "
                  f"{'reversed' if in_rev else 'unreversed'} array: it does "
                  "not always see approach-ordered data")
        ctx.check(out_rev == in_rev, node,
                  f"{label}: output "
                  f"{'reversed back' if out_rev else 'returned as is'}",
                  f"for an {label} abscissa the output is "
                  f"{'reversed' if out_rev else 'not reversed'} although the "
                  f"input was {'reversed' if in_rev else 'not reversed'}: "
                  "model output order differs from the abscissa order")
    ctx.check({True, False} <= seen_asc, fn,
              "both orientations handled", "only one orientation of the "
              "abscissa is handled")


def r2_defaults_attached(ctx):
    core = ctx.repo.mod("model.core")
    meths = core.methods("NaniteFitModel")
    auto = meths.get("_module_autocomplete")
    init = meths.get("__init__")
    if auto is None or init is None:
        raise AnchorError("NaniteFitModel methods missing")
    ctx.analysed(auto)
    want = {"residual": "residuals.get_default_residuals_wrapper",
            "model": "residuals.get_default_modeling_wrapper"}
    found = {}
    Ra = Resolver(auto)
    for st in walk_no_nested(auto, False):
        if isinstance(st, ast.Assign) and isinstance(
                st.targets[0], ast.Attribute) and \
                dotted(st.targets[0].value) == "self.module":
            attr = st.targets[0].attr
            conds = conditions_at(st)
            guard = any((not a.pol) and a.text ==
                        f"hasattr(self.module, '{attr}')" for a in conds)
            v = st.value
            if isinstance(v, ast.Name):
                rv = Ra.reaching_value(v)
                v = rv if rv is not None else v
            ok = isinstance(v, ast.Call) and call_name(v) == want.get(attr) \
                and len(v.keywords) + len(v.args) == 1 and norm(
                    (v.keywords[0].value if v.keywords else v.args[0])) == \
                "self.module.model_func"
            found[attr] = True
            ctx.check(guard, st, f"default {attr} attached only when absent",
                      f"the module's own `{attr}` is overwritten by the "
                      "default wrapper")
            ctx.check(ok, st, f"default {attr} = {norm(v)[:70]}",
                      f"the default `{attr}` is not the corresponding "
                      "wrapper around model_func")
    for attr in want:
        ctx.check(found.get(attr, False), auto,
                  f"default {attr} attached", f"no default `{attr}` is "
                  "attached to modules lacking one")
    for attr in want:
        ok = any(isinstance(st, ast.Assign) and dotted(st.targets[0]) ==
                 f"self.{attr}" and dotted(st.value) == f"self.module.{attr}"
                 for st in walk_no_nested(init, False))
        ctx.check(ok, init, f"NaniteFitModel.{attr} = module.{attr}",
                  f"NaniteFitModel.{attr} is not the module's {attr}")


def r3_shipped_models(ctx):
    from .c02 import homogeneity_degrees, r2_off_contact
    r2_off_contact(ctx)
    homogeneity_degrees(ctx)
    for mod in facts.model_modules(ctx.repo):
        fn = facts.model_func(mod)
        ps = func_params(fn)
        al = effects.alias_map(fn, {p: f"param:{p}" for p in ps})
        muts = effects.mutations(fn, al)
        for node, root, how in muts:
            ctx.fail(node, how, f"{mod.relpath}: the model function "
                     f"modifies its argument `{root}` in place")
        if not muts:
            ctx.ok(fn, f"{fn.name} mutates no argument")
        # output has the shape of the abscissa
        shapes = [c for c in calls_in(fn) if (call_name(c) or "").endswith(
            ("zeros_like", "full_like", "ones_like", "empty_like"))]
        ok = shapes and all(norm(c.args[0]) == ps[0] for c in shapes)
        if not shapes:
            # the array is allocated by a package function the model
            # function delegates to (with the abscissa as its abscissa)
            from .c02 import ModelEval
            try:
                me = ModelEval(mod)
            except Undecided:
                me = None
            for c in calls_in(fn):
                if me is None or not isinstance(c.func, ast.Name):
                    continue
                cal = me._resolve_callee(c.func.id)
                if cal is None:
                    continue
                cps = func_params(cal[1])
                sh2 = [x for x in calls_in(cal[1]) if (call_name(x) or ""
                       ).endswith(("zeros_like", "full_like", "ones_like",
                                   "empty_like"))]
                if sh2 and all(norm(x.args[0]) == cps[0] for x in sh2) \
                        and c.args and norm(c.args[0]) == ps[0]:
                    ok = True
        # every returned value is an array over the abscissa, never a bare
        # scalar parameter
        arrays = {ps[0]}
        changed = True
        while changed:
            changed = False
            for st in walk_no_nested(fn, False):
                if isinstance(st, ast.Assign) and isinstance(
                        st.targets[0], ast.Name) and \
                        st.targets[0].id not in arrays and any(
                            isinstance(x, ast.Name) and x.id in arrays
                            for x in ast.walk(st.value)):
                    arrays.add(st.targets[0].id)
                    changed = True
        for r in walk_no_nested(fn, False):
            if isinstance(r, ast.Return) and r.value is not None:
                names = {x.id for x in ast.walk(r.value)
                         if isinstance(x, ast.Name)}
                ctx.check(bool(names & arrays), r,
                          f"{fn.name}: returns an array ({norm(r.value)[:40]})",
                          f"{mod.relpath}: `return {norm(r.value)[:40]}` "
                          f"hands back a scalar, not an array shaped like "
                          f"the abscissa: the direction-agnostic wrapper "
                          f"indexes the result ([::-1]) and fails, or "
                          f"broadcasting hides a result of the wrong shape")
        ctx.check(bool(ok), fn, f"{fn.name}: result shaped like the abscissa",
                  "the result array is not shaped like the abscissa")


def r4_default_residual(ctx):
    fitclauses.clause_default_wrappers(ctx)
    fitclauses.clause_residual_shape(ctx)



def r5_models_pure(ctx):
    """inputs are not modified: no augmented assignment, subscript store,
    in-place method or `out=` on a parameter of a shipped model function"""
    from ..astutil import kwarg
    n = 0
    for mod in facts.model_modules(ctx.repo):
        f = facts.model_func(mod)
        ps = set(func_params(f))
        n += 1
        bad = []
        for x in ast.walk(f):
            if isinstance(x, ast.AugAssign):
                b = x.target
                while isinstance(b, (ast.Subscript, ast.Attribute)):
                    b = b.value
                if isinstance(b, ast.Name) and b.id in ps and (
                        isinstance(x.target, ast.Subscript)
                        or b.id == func_params(f)[0]):
                    bad.append((x, norm(x)))
            elif isinstance(x, ast.Assign):
                for t in x.targets:
                    if isinstance(t, ast.Subscript):
                        b = t.value
                        while isinstance(b, (ast.Subscript, ast.Attribute)):
                            b = b.value
                        if isinstance(b, ast.Name) and b.id in ps and not any(
                                isinstance(y, ast.Assign) and any(
                                    isinstance(tt, ast.Name) and tt.id == b.id
                                    for tt in y.targets)
                                for y in ast.walk(f)):
                            bad.append((x, norm(x)))
            elif isinstance(x, ast.Call):
                o = kwarg(x, "out")
                if isinstance(o, ast.Name) and o.id in ps:
                    bad.append((x, norm(x)))
        if not bad:
            ctx.ok(f, f"{mod.name}.{f.name} writes to none of its arguments")
        for x, txt in bad:
            ctx.fail(x, f"{f.name} leaves its arguments alone",
                     f"model function {f.name} edits the array it is handed "
                     f"in place (`{txt[:60]}`): the caller's abscissa is "
                     "changed (bitwise after the round trip, or for good when "
                     "the evaluation raises in between; read-only input "
                     "raises)")
    ctx.floor("shipped model functions", n, 5)


RULES = [
    ("C13-R1", "direction wrapper: one flag, symmetric reversal, one call",
     r1_direction_wrapper),
    ("C13-R2", "default wrappers attached iff absent and exposed",
     r2_defaults_attached),
    ("C13-R3", "shipped models: translation covariance, additive baseline, "
     "linear in moduli, continuous at contact, no argument mutated",
     r3_shipped_models),
    ("C13-R4", "default residual = (data - model) x weights via the "
     "direction-agnostic model", r4_default_residual),
    ("C13-R5", 'shipped model functions leave the arrays they are handed alone',
     r5_models_pure),
]
