"""C13 — every registered model obeys the structural model contract."""
from __future__ import annotations

import ast

from .. import effects, facts, fitclauses
from ..astutil import (call_name, calls_in, dotted, func_params, norm,
                       walk_no_nested)
from ..cfg import CFG
from ..guards import conditions_at
from ..loader import AnchorError, Undecided

EXPLANATION = (
    "Decided by shape: (R1) the direction wrapper computes one orientation "
    "flag from the original abscissa (first < last), reverses the input "
    "view and the output under that same flag, and calls the user function "
    "exactly once with the (possibly reversed) abscissa and the parameter "
    "values; (R2) default `residual`/`model` wrappers are attached iff the "
    "module lacks them, are built from model_func, and are what "
    "NaniteFitModel exposes; (R3) for the shipped models: abscissa and "
    "contact point enter only through their difference (translation "
    "covariance), the baseline enters once additively, force minus baseline "
    "is homogeneous of degree 1 in the moduli jointly, every contact term "
    "has positive depth degree (continuity at contact), and no argument is "
    "mutated; (R4) the default residual is (data - model) x linear "
    "contact-point weights and routes through the direction-agnostic model "
    "wrapper.")
NOT_DECIDED = [
    "monotonicity of force with depth up to the tip radius (sign of a "
    "derivative over a real interval)",
    "bodies of user-supplied model functions (only the generated wrappers "
    "around them are analysed)",
]


def r1_direction_wrapper(ctx):
    rm = ctx.repo.mod("model.residuals")
    fn = rm.func("model_direction_agnostic")
    ctx.analysed(fn)
    params = func_params(fn)
    if len(params) < 3:
        raise Undecided("model_direction_agnostic signature changed")
    mf, pv, xv = params[0], params[1], params[2]
    calls = [c for c in calls_in(fn) if call_name(c) == mf]
    ctx.check(len(calls) == 1, fn, f"user function called {len(calls)}x",
              "the user model function is not called exactly once")
    if len(calls) != 1:
        return
    call = calls[0]
    got = {kw.arg: norm(kw.value) for kw in call.keywords if kw.arg}
    if call.args:
        got["delta"] = norm(call.args[0])
    star = [norm(kw.value) for kw in call.keywords if kw.arg is None]
    ctx.check(got.get("delta") == xv and star == [f"{pv}.valuesdict()"],
              call, f"call {norm(call)}",
              "the user function does not receive the abscissa and the "
              "parameter values")
    # orientation flag
    cfg = CFG(fn)
    asc = (f"{xv}[0] < {xv}[-1]", f"{xv}[-1] > {xv}[0]")
    flag_defs = {}
    for st in walk_no_nested(fn, False):
        if isinstance(st, ast.Assign) and isinstance(st.targets[0], ast.Name):
            v = st.value
            name = st.targets[0].id
            if isinstance(v, ast.Compare) and norm(v) in asc:
                flag_defs.setdefault(name, []).append(("expr", st))
            elif isinstance(v, ast.Constant) and isinstance(v.value, bool):
                conds = conditions_at(st)
                c = [a for a in conds if a.text in asc]
                if len(c) == 1 and c[0].pol == v.value:
                    flag_defs.setdefault(name, []).append(("branch", st))
                else:
                    flag_defs.setdefault(name, []).append(("bad", st))
    flags = [n for n, ds in flag_defs.items()
             if all(k != "bad" for k, _ in ds)]
    # input reversal
    rev_in = [st for st in walk_no_nested(fn, False)
              if isinstance(st, ast.Assign) and norm(st.targets[0]) == xv
              and norm(st.value) in (f"{xv}[::-1]", f"np.flip({xv})",
                                     f"np.flipud({xv})")]
    ctx.check(len(rev_in) == 1, fn, f"{len(rev_in)} input reversal(s)",
              "the abscissa is not reversed exactly once before the call")
    res_name = None
    st = call
    while not isinstance(st, ast.stmt):
        st = st._parent
    if isinstance(st, ast.Assign) and isinstance(st.targets[0], ast.Name):
        res_name = st.targets[0].id
    rets = [r for r in walk_no_nested(fn, False) if isinstance(r, ast.Return)]
    rev_out = [r for r in rets if r.value is not None and norm(r.value) in (
        f"{res_name}[::-1]", f"np.flip({res_name})")]
    plain_out = [r for r in rets if r.value is not None
                 and norm(r.value) == res_name]
    ctx.check(len(rev_out) == 1 and len(plain_out) == 1 and len(rets) == 2,
              fn, "returns: reversed under the flag, plain otherwise",
              "the output is not returned reversed on exactly one of two "
              "return paths")

    def flag_of(node):
        conds = conditions_at(node)
        out = []
        for a in conds:
            if a.text in flags:
                out.append((a.text, a.pol, a))
            elif a.text in asc:
                out.append(("<asc>", a.pol, a))
        return out

    fin = [flag_of(s) for s in rev_in]
    fout = [flag_of(r) for r in rev_out]
    fplain = [flag_of(r) for r in plain_out]
    ok = (len(fin) == 1 and len(fout) == 1 and len(fin[0]) == 1
          and len(fout[0]) == 1 and fin[0][0][:2] == fout[0][0][:2]
          and fin[0][0][1] is True)
    ctx.check(ok, fn, "input and output reversed under the same flag",
              "input reversal and output reversal are not controlled by the "
              "same orientation flag: output order differs from the "
              "abscissa order for one orientation")
    if ok and fin[0][0][0] == "<asc>":
        # the test is re-evaluated after the abscissa was re-bound
        ctx.fail(rev_out[0], "orientation re-tested after reversal",
                 "the orientation test is evaluated again after the "
                 "abscissa name was re-bound to the reversed view: the "
                 "output is never reversed back")
    if fplain and fplain[0]:
        ctx.check(fplain[0][0][1] is False, plain_out[0],
                  "plain return under the negated flag", "flag mix-up")
    # the flag is computed before the abscissa is re-bound
    for name in flags:
        for kind, st_ in flag_defs[name]:
            n1 = cfg.node_of_stmt(st_) or cfg.node_containing(st_)
            for s in rev_in:
                n2 = cfg.node_of_stmt(s)
                if n1 is not None and n2 is not None:
                    ctx.check(n2.id not in cfg.reach([cfg.entry],
                                                     avoid={n1.id})
                              or kind == "branch", st_,
                              "orientation determined before the reversal",
                              "orientation is determined after the "
                              "abscissa was already reversed")
    ctx.check(bool(flags) or (ok and fin[0][0][0] == "<asc>"), fn,
              "orientation flag = (first < last) of the given abscissa",
              "no orientation flag derived from delta[0] < delta[-1]")


def r2_defaults_attached(ctx):
    core = ctx.repo.mod("model.core")
    meths = core.methods("NaniteFitModel")
    auto = meths.get("_module_autocomplete")
    init = meths.get("__init__")
    if auto is None or init is None:
        raise AnchorError("NaniteFitModel methods missing")
    ctx.analysed(auto)
    want = {"residual": "residuals.get_default_residuals_wrapper",
            "model": "residuals.get_default_modeling_wrapper"}
    found = {}
    for st in walk_no_nested(auto, False):
        if isinstance(st, ast.Assign) and isinstance(
                st.targets[0], ast.Attribute) and \
                dotted(st.targets[0].value) == "self.module":
            attr = st.targets[0].attr
            conds = conditions_at(st)
            guard = any((not a.pol) and a.text ==
                        f"hasattr(self.module, '{attr}')" for a in conds)
            v = st.value
            ok = isinstance(v, ast.Call) and call_name(v) == want.get(attr) \
                and len(v.keywords) + len(v.args) == 1 and norm(
                    (v.keywords[0].value if v.keywords else v.args[0])) == \
                "self.module.model_func"
            found[attr] = True
            ctx.check(guard, st, f"default {attr} attached only when absent",
                      f"the module's own `{attr}` is overwritten by the "
                      "default wrapper")
            ctx.check(ok, st, f"default {attr} = {norm(v)[:70]}",
                      f"the default `{attr}` is not the corresponding "
                      "wrapper around model_func")
    for attr in want:
        ctx.check(found.get(attr, False), auto,
                  f"default {attr} attached", f"no default `{attr}` is "
                  "attached to modules lacking one")
    for attr in want:
        ok = any(isinstance(st, ast.Assign) and dotted(st.targets[0]) ==
                 f"self.{attr}" and dotted(st.value) == f"self.module.{attr}"
                 for st in walk_no_nested(init, False))
        ctx.check(ok, init, f"NaniteFitModel.{attr} = module.{attr}",
                  f"NaniteFitModel.{attr} is not the module's {attr}")


def r3_shipped_models(ctx):
    from .c02 import homogeneity_degrees, r2_off_contact
    r2_off_contact(ctx)
    homogeneity_degrees(ctx)
    for mod in facts.model_modules(ctx.repo):
        fn = facts.model_func(mod)
        ps = func_params(fn)
        al = effects.alias_map(fn, {p: f"param:{p}" for p in ps})
        muts = effects.mutations(fn, al)
        for node, root, how in muts:
            ctx.fail(node, how, f"{mod.relpath}: the model function "
                     f"modifies its argument `{root}` in place")
        if not muts:
            ctx.ok(fn, f"{fn.name} mutates no argument")
        # output has the shape of the abscissa
        shapes = [c for c in calls_in(fn) if (call_name(c) or "").endswith(
            ("zeros_like", "full_like", "ones_like", "empty_like"))]
        ok = shapes and all(norm(c.args[0]) == ps[0] for c in shapes)
        ctx.check(bool(ok), fn, f"{fn.name}: result shaped like the abscissa",
                  "the result array is not shaped like the abscissa")


def r4_default_residual(ctx):
    fitclauses.clause_default_wrappers(ctx)
    fitclauses.clause_residual_shape(ctx)


RULES = [
    ("C13-R1", "direction wrapper: one flag, symmetric reversal, one call",
     r1_direction_wrapper),
    ("C13-R2", "default wrappers attached iff absent and exposed",
     r2_defaults_attached),
    ("C13-R3", "shipped models: translation covariance, additive baseline, "
     "linear in moduli, continuous at contact, no argument mutated",
     r3_shipped_models),
    ("C13-R4", "default residual = (data - model) x weights via the "
     "direction-agnostic model", r4_default_residual),
]
