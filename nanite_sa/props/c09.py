"""C09 — quality rating is total, deterministic, in range and tied to the
current fit."""
from __future__ import annotations

import ast
import pathlib
import sysconfig

from .. import effects, facts
from ..astutil import (call_name, calls_in, const_str, dotted, func_params,
                       kwarg, literal, norm, walk_no_nested, Opaque)
from ..callgraph import CallGraph
from ..guards import conditions_at
from ..keypresence import FITTED, Presence
from ..loader import AnchorError, Undecided
from ..symres import Resolver

EXPLANATION = (
    "Necessary conditions on the rating path, for every curve state: (R1) "
    "key-presence typestate: every read of a fit-properties key in the "
    "feature accessors reachable from rate_quality is dominated by a fact "
    "implying presence ('k in fp', .get, or a validity predicate whose "
    "derived summary implies a successful fit) - computed "
    "inter-procedurally through the accessor properties; (R2) every "
    "argument handed to get_rater plus the fit hash is compared (raw value, "
    "plain !=) in the cache test and stored at the same tuple position that "
    "all readers use; (R3) pass-through: 'none' gives -1, the value "
    "returned is the rater's or the cached one, and IndentationRater.rate "
    "orders exclusion (0) before NaN (-1) before prediction; (R4) every "
    "regressor whose class takes random_state fixes it, and nothing on the "
    "rating path mutates the hyper-parameter table or other module-level "
    "tables; (R5) no clock/RNG/environment reads on the rating path.")
NOT_DECIDED = [
    "that predictions of the tree regressors lie in [0, 10] and are equal "
    "across processes (sklearn runtime behaviour)",
    "absence of exceptions raised inside numpy/sklearn for particular "
    "values (only missing keys, explicit raise/assert sites and empty "
    "selections are decided)",
]
ASSUMPTIONS = [
    "A5: which sklearn estimator classes accept random_state is read from "
    "the installed sklearn sources (parsed, not imported)",
]


def r1_key_presence(ctx):
    P = Presence(ctx.repo)
    feats = [n for n in P.methods if n.startswith("feat_")]
    ctx.floor("feature methods", len(feats), 15)
    ctx.check({"is_fitted", "has_contact_point"} <= P.pred_fitted,
              P.mod.cls(P.cls), f"validity predicates implying a successful "
              f"fit: {sorted(P.pred_fitted)}",
              "is_fitted / has_contact_point no longer imply that a "
              "successful fit is stored: features guarded by them read "
              "missing keys or stale parameters of a failed fit")
    seen = set()
    for name in sorted(feats) + ["compute_features"]:
        f = P.methods.get(name)
        if f is None:
            continue
        ctx.analysed(f)
        reqs = P.requires(name)
        if not reqs:
            ctx.ok(f, f"{name}: every fit-properties read is guarded")
        for (k, node, chain) in reqs:
            key = (k, norm(node), chain[-1])
            if key in seen:
                continue
            seen.add(key)
            ctx.fail(node, f"read {norm(node)} in {chain[-1]}",
                     f"fit_properties['{k}'] is read without a guard "
                     f"implying its presence (reached unguarded via "
                     f"{' -> '.join(chain)}): rate_quality raises KeyError "
                     "for a curve that is preprocessed but not fitted, or "
                     "whose settings were edited after the fit")
    # the predicates themselves must not read unguarded
    for name in ("is_fitted", "is_valid", "has_contact_point"):
        for (k, node, chain) in P.requires(name):
            ctx.fail(node, f"read {norm(node)} in predicate {name}",
                     f"validity predicate {name} reads "
                     f"fit_properties['{k}'] without checking its presence")
    # rate_quality's own reads
    rq = ctx.repo.mod("indent").func("Indentation.rate_quality")
    ctx.analysed(rq)
    for u in facts.fp_key_uses(rq):
        if u.kind == "read" and u.key:
            conds = conditions_at(u.node)
            ok = any(a.pol and a.text.startswith(f"'{u.key}' in ")
                     for a in conds)
            ctx.check(ok, u.node, f"rate_quality reads '{u.key}' under a "
                      "membership test",
                      f"rate_quality reads fit_properties['{u.key}'] "
                      "without testing its presence")


def _stmt_lists(f):
    """every statement list in `f` (nested functions excluded)"""
    out = []
    todo = [f]
    while todo:
        n = todo.pop()
        for fld in ("body", "orelse", "finalbody"):
            b = getattr(n, fld, None)
            if isinstance(b, list) and b and isinstance(b[0], ast.stmt):
                out.append((n, b))
                for st in b:
                    if not isinstance(st, (ast.FunctionDef, ast.ClassDef,
                                           ast.AsyncFunctionDef)):
                        todo.append(st)
        for h in getattr(n, "handlers", []) or []:
            todo.append(h)
        for c_ in getattr(n, "cases", []) or []:
            todo.append(c_)
    return out


def stored_value_defs(f, store, name):
    """values that can be bound to the local `name` when the statement
    `store` runs: backwards through the enclosing statement lists; a
    compound statement that binds the name contributes all its bindings
    (over-approximation), a plain assignment ends the search."""
    lists = _stmt_lists(f)
    cur = store
    found = []
    while True:
        owner = next(((o, b) for o, b in lists if any(x is cur for x in b)),
                     None)
        if owner is None:
            return found
        o, b = owner
        i = next(k for k, x in enumerate(b) if x is cur)
        for st in reversed(b[:i]):
            if isinstance(st, ast.Assign) and any(
                    isinstance(t, ast.Name) and t.id == name
                    for t in st.targets):
                found.append(st.value)
                return found
            inner = [a.value for a in ast.walk(st)
                     if isinstance(a, ast.Assign) and any(
                         isinstance(t, ast.Name) and t.id == name
                         for t in a.targets)]
            if inner:
                found.extend(inner)
                return found
        if o is f:
            return found
        cur = o


def placeholder_never_cached(ctx, rq):
    """the stand-in returned without rating (regressor 'none': -1) is not a
    rating: it is never written into the cache the rating map and
    get_rating_parameters read"""
    for st in walk_no_nested(rq, False):
        if not (isinstance(st, ast.Assign)
                and dotted(st.targets[0]) == "self._rating"
                and isinstance(st.value, ast.Tuple) and st.value.elts):
            continue
        last = st.value.elts[-1]
        vals = [last]
        if isinstance(last, ast.Name):
            vals = stored_value_defs(rq, st, last.id)
        for v in vals:
            lit = literal(v)
            ctx.check(not (isinstance(lit, (int, float))
                           and not isinstance(lit, bool)), st,
                      f"cached rating value <- {norm(v)[:40]}",
                      f"rate_quality stores the placeholder `{norm(v)}` "
                      "(returned when no rating is made) in the rating "
                      "cache: the rating map and get_rating_parameters then "
                      "show it as the curve's rating for the current fit "
                      "instead of NaN / 'not rated'")



def r2_cache_key(ctx):
    ind = ctx.repo.mod("indent")
    rq = ind.func("Indentation.rate_quality")
    gr = [c for c in calls_in(rq) if call_name(c) == "get_rater"]
    if len(gr) != 1:
        raise AnchorError("rate_quality must call get_rater exactly once")
    inputs = []
    for kw in gr[0].keywords:
        inputs.append(norm(kw.value))
    for a in gr[0].args:
        inputs.append(norm(a))
    # the stored tuple
    stores = [st for st in walk_no_nested(rq, False)
              if isinstance(st, ast.Assign)
              and dotted(st.targets[0]) == "self._rating"
              and isinstance(st.value, ast.Tuple)]
    if len(stores) != 1:
        raise Undecided("rate_quality does not store one rating tuple")
    elts = stores[0].value.elts
    layout = []
    for e in elts:
        t = norm(e)
        if isinstance(e, ast.Call) and call_name(e) in (
                "copy.copy", "copy.deepcopy", "list", "tuple") and e.args:
            t = norm(e.args[0])
        layout.append(t)
    # hash variable
    hv = None
    for st in walk_no_nested(rq, False):
        if isinstance(st, ast.Assign) and isinstance(
                st.value, ast.Subscript) and const_str(
                    st.value.slice) == "hash":
            hv = norm(st.targets[0])
        elif isinstance(st, ast.Assign) and isinstance(
                st.value, ast.Call) and isinstance(
                st.value.func, ast.Attribute) and st.value.func.attr == \
                "get" and st.value.args and const_str(
                    st.value.args[0]) == "hash" and "fit_properties" in \
                norm(st.value.func.value):
            hv = norm(st.targets[0])
    if hv is None:
        raise Undecided("rate_quality does not read the fit hash")
    needed = [hv] + inputs
    # comparisons in the cache test
    compared = {}
    Rq = Resolver(rq, keep={hv})

    def is_cache(e):
        return hasattr(e, "_parent") and Rq.text(e) == "self._rating"
    for n in ast.walk(rq):
        if isinstance(n, ast.Compare) and len(n.ops) == 1 and isinstance(
                n.left, ast.Subscript) and is_cache(n.left.value) and \
                isinstance(n.left.slice, ast.Constant):
            compared[norm(n.comparators[0])] = (n.left.slice.value,
                                                type(n.ops[0]).__name__, n)
    wrapped = [n for n in ast.walk(rq) if isinstance(n, ast.Compare)
               and hasattr(n, "_parent")
               and "self._rating[" in Rq.text(n) and not (
                   isinstance(n.left, ast.Subscript)
                   and is_cache(n.left.value))]
    for w in wrapped:
        ctx.fail(w, f"cache comparison {norm(w)}",
                 "a cached field is compared after a conversion (e.g. "
                 "bool()): distinct argument values (None vs False) are "
                 "treated as equal and the cached rating of other settings "
                 "is returned")
    for x in needed:
        pos = layout.index(x) if x in layout else None
        ctx.check(pos is not None, stores[0], f"cache stores `{x}`",
                  f"the rating cache does not record `{x}`")
        c = compared.get(x)
        ctx.check(c is not None and c[1] in ("NotEq", "Eq"), rq,
                  f"cache test compares `{x}`",
                  f"the cache test does not compare `{x}`: changing it "
                  "returns the rating computed for the previous value")
        if c is not None and pos is not None:
            ctx.check(c[0] == pos, c[2],
                      f"`{x}` compared at its stored position {pos}",
                      f"`{x}` is stored at position {pos} but compared with "
                      f"position {c[0]}")
    placeholder_never_cached(ctx, rq)
    # an argument documented as a list is remembered as a copy: a cache
    # that keeps the caller's list compares the list with itself after an
    # in-place edit and returns the rating of the previous selection
    doc = ast.get_docstring(rq) or ""
    import re as _re
    listy = set(_re.findall(r"^\s*(\w+)\s*:\s*list\b", doc, _re.M))
    rebound = {t.id for a in walk_no_nested(rq, False)
               if isinstance(a, (ast.Assign, ast.AugAssign, ast.AnnAssign))
               for t in (a.targets if isinstance(a, ast.Assign)
                         else [a.target]) if isinstance(t, ast.Name)}
    for e in elts:
        if isinstance(e, ast.Name) and e.id in listy and \
                e.id in func_params(rq) and e.id not in rebound:
            ctx.fail(e, f"cache keeps the caller's list `{e.id}`",
                     f"the rating cache stores the caller's `{e.id}` list "
                     "itself: after an in-place edit of that list the "
                     "cache test compares the list with itself and the "
                     "rating of the previous feature selection is returned")
    # value position: last; readers agree
    ctx.check(len(layout) == len(needed) + 1, stores[0],
              f"cache layout {layout}", "unexpected cache layout")
    vpos = len(layout) - 1
    for st in walk_no_nested(rq, False):
        if isinstance(st, ast.Assign) and isinstance(st.value, ast.Subscript)\
                and dotted(st.value.value) == "self._rating":
            idx = literal(st.value.slice)
            ctx.check(idx in (-1, vpos), st, f"cached value read at {idx}",
                      "the cached rating is read from the wrong position")
    grp = ind.func("Indentation.get_rating_parameters")
    want = {"Hash": 0, "Regressor": 1, "Training set": 2,
            "Feature names": 3, "Linear discriminant analysis": 4,
            "Rating": 5}
    for st in walk_no_nested(grp, False):
        if isinstance(st, ast.Assign) and isinstance(
                st.targets[0], ast.Subscript) and isinstance(
                    st.value, ast.Subscript):
            k = const_str(st.targets[0].slice)
            idx = literal(st.value.slice)
            if k in want:
                ctx.check(idx == want[k], st,
                          f"get_rating_parameters['{k}'] <- field {idx}",
                          f"'{k}' is read from cache field {idx}")
    qm = ctx.repo.mod("qmap")
    fm = qm.func("QMap.feat_meta_rating")
    for n in ast.walk(fm):
        if isinstance(n, ast.Subscript) and norm(n.value).endswith(
                "._rating"):
            idx = literal(n.slice)
            par = getattr(n, "_parent", None)
            if isinstance(par, ast.Compare):
                # a freshness test: must look at the hash field
                ctx.check(idx == layout.index(hv), n,
                          f"qmap compares cache field {idx} (hash)",
                          "the map's freshness test does not compare the "
                          "hash field of the rating cache")
                continue
            ctx.check(idx in (-1, vpos), n, f"qmap reads rating field {idx}",
                      "the map reads the rating from the wrong cache field")
    # totality of the comparison for array-valued training sets
    grf = ctx.repo.mod("rate.rater").func("get_rater")
    accepts_tuple = any(isinstance(c, ast.Call) and call_name(c) ==
                        "isinstance" and norm(c.args[0]) == "training_set"
                        and "tuple" in norm(c.args[1]) for c in ast.walk(grf))
    c = compared.get("training_set")
    if accepts_tuple and c is not None:
        ctx.fail(c[2], "cached training_set compared by ==/!= with "
                 "array-valued training sets",
                 "get_rater accepts an in-memory training set (X, y), but "
                 "the cache test compares training sets with `==`/`!=`: for two "
                 "different array tuples this raises ValueError (truth "
                 "value of an array), so rate_quality raises instead of "
                 "re-rating")


def r3_pass_through(ctx):
    ind = ctx.repo.mod("indent")
    rq = ind.func("Indentation.rate_quality")
    rets = [r for r in walk_no_nested(rq, False) if isinstance(r, ast.Return)]
    Rrq = Resolver(rq)
    # every value that can leave rate_quality, with the statement that
    # decides it (its path conditions)
    outs = []
    for r in rets:
        if isinstance(r.value, ast.Name):
            vs = Rrq.reaching_values(r.value)
            if vs is None:
                raise Undecided("rate_quality returns a local that is not "
                                "built by plain assignments")
            for v in vs:
                st_ = getattr(v, "_parent", None)
                outs.append((v, st_ if st_ is not None else r))
        elif r.value is not None:
            outs.append((r.value, r))
    if not outs:
        raise Undecided("rate_quality returns nothing")
    kinds = set()
    for v, d in outs:
        t = Rrq.text(v) if hasattr(v, "_parent") else norm(v)
        conds = conditions_at(d)
        if isinstance(v, (ast.Constant, ast.UnaryOp)) and literal(v) == -1:
            ok = any(a.pol and _is_none_regressor(a.node) for a in conds) \
                and not any(a.pol and isinstance(a.node, ast.BoolOp)
                            and "none" in a.text for a in conds)
            ctx.check(ok, d, "-1 only for the pseudo regressor 'none'",
                      "rate_quality returns -1 outside the 'none' case")
            kinds.add("none")
        elif t.startswith("self._rating["):
            kinds.add("cached")
            ctx.ok(d, "cached value returned unchanged")
        elif isinstance(v, ast.Subscript) and isinstance(v.value, ast.Call) \
                and isinstance(v.value.func, ast.Attribute) and \
                v.value.func.attr == "rate" and literal(v.slice) == 0:
            kinds.add("rated")
            kw = {k.arg: norm(k.value) for k in v.value.keywords}
            ctx.check(kw.get("datasets") == "self", d,
                      f"rating computed as {t}",
                      "the rater is not applied to this curve")
        else:
            ctx.fail(d, f"returned value := {t[:60]}",
                     "the value returned by rate_quality is neither the "
                     "rater's output nor the cached value (arithmetic in "
                     "between)")
    ctx.check(kinds == {"none", "cached", "rated"}, rq,
              f"return kinds {sorted(kinds)}",
              "rate_quality lost one of its three outcomes")
    # IndentationRater.rate: exclusion -> NaN -> predict
    rt = ctx.repo.mod("rate.rater").func("IndentationRater.rate")
    ctx.analysed(rt)
    chain = None
    for n in walk_no_nested(rt, False):
        if isinstance(n, ast.If) and "_pre_rate" in norm(n.test):
            chain = n
    if chain is None:
        raise AnchorError("IndentationRater.rate has no exclusion test")
    first = norm(chain.test)
    ctx.check(first.startswith("not self._pre_rate("), chain,
              f"first test: {first}",
              "the exclusion criterion is not tested first")
    v0 = [literal(s.value) for s in chain.body if isinstance(s, ast.Assign)]
    ctx.check(v0 == [0], chain, "excluded curve rated 0",
              f"a curve failing a binary criterion is rated {v0}")
    nxt = chain.orelse[0] if len(chain.orelse) == 1 and isinstance(
        chain.orelse[0], ast.If) else None
    ok = nxt is not None and "isnan" in norm(nxt.test)
    ctx.check(ok, chain, "second test: NaN features",
              "undefined features are not tested before predicting")
    if ok:
        ctx.check(_any_nan(nxt.test), nxt, "-1 as soon as ANY feature is "
                  "NaN",
                  f"the NaN test `{norm(nxt.test)[:60]}` is not 'some "
                  f"feature is NaN': a sample with only part of its "
                  f"features undefined reaches the regressor (prediction "
                  f"from NaN, or ValueError) instead of being rated -1")
    if ok:
        v1 = [literal(s.value) for s in nxt.body if isinstance(s, ast.Assign)]
        ctx.check(v1 == [-1], nxt, "NaN features rated -1",
                  f"undefined features are rated {v1}")
        v2 = [norm(s.value) for s in nxt.orelse if isinstance(s, ast.Assign)]
        ctx.check(len(v2) == 1 and v2[0].startswith("self._rate("), nxt,
                  "otherwise the pipeline prediction",
                  "the prediction branch changed")
    pr = ctx.repo.mod("rate.rater").func("IndentationRater._pre_rate")
    ctx.analysed(pr)
    ctx.check(_pre_rate_shape(pr), pr,
              "exclusion iff a binary feature equals 0",
              "the exclusion test is no longer 'some binary feature == 0' "
              "(NaN binary features of unfitted curves must not exclude)")


def _is_none_regressor(nd):
    """`regressor.lower() == 'none'` (or without .lower())"""
    if not (isinstance(nd, ast.Compare) and len(nd.ops) == 1 and isinstance(
            nd.ops[0], ast.Eq)):
        return False
    sides = [norm(nd.left), norm(nd.comparators[0])]
    return "'none'" in sides and any(
        s in ("regressor.lower()", "regressor") for s in sides)


def _any_nan(test):
    """truthy iff at least one entry is NaN: isnan(sum(x)), any(isnan(x)),
    isnan(x).any(), sum(isnan(x)), count_nonzero(isnan(x))"""
    t = test
    if isinstance(t, ast.Call) and call_name(t) == "bool" and t.args:
        t = t.args[0]
    if not isinstance(t, ast.Call):
        return False
    cn = call_name(t) or ""
    short = cn.split(".")[-1]

    def isnan_of(e):
        return isinstance(e, ast.Call) and (call_name(e) or "").split(
            ".")[-1] == "isnan" and len(e.args) == 1
    if short == "isnan" and t.args:
        a = t.args[0]
        return isinstance(a, ast.Call) and (call_name(a) or "").split(
            ".")[-1] in ("sum", "mean", "min", "max", "prod") or (
            isinstance(a, ast.Call) and isinstance(a.func, ast.Attribute)
            and a.func.attr in ("sum", "mean"))
    if short in ("any", "sum", "count_nonzero"):
        if t.args and isnan_of(t.args[0]):
            return True
        if isinstance(t.func, ast.Attribute) and isnan_of(t.func.value):
            return True
    return False


def _some_zero(e, arg, R):
    """e is truthy iff some entry of `arg` equals 0 (NaN entries do not
    count): sum/any/count_nonzero of `arg == 0`"""
    e = R.resolve(e)
    if isinstance(e, ast.Call) and call_name(e) == "bool" and e.args:
        e = e.args[0]
    if not isinstance(e, ast.Call):
        return False
    if isinstance(e.func, ast.Attribute) and e.func.attr in (
            "any", "sum") and not e.args and not (call_name(e) or "")\
            .startswith(("np.", "numpy.")):
        m = e.func.value
    elif (call_name(e) or "") in ("np.sum", "np.any", "np.count_nonzero",
                                  "numpy.sum", "numpy.any", "any", "sum") \
            and len(e.args) == 1 and not e.keywords:
        m = e.args[0]
    else:
        return False
    return isinstance(m, ast.Compare) and len(m.ops) == 1 and isinstance(
        m.ops[0], ast.Eq) and {norm(m.left), norm(m.comparators[0])} == \
        {arg, "0"}


def _no_zero(e, arg, R):
    """e is truthy iff no entry of `arg` equals 0: all(arg != 0)"""
    e = R.resolve(e)
    if isinstance(e, ast.Call) and call_name(e) == "bool" and e.args:
        e = e.args[0]
    if isinstance(e, ast.UnaryOp) and isinstance(e.op, ast.Not):
        return _some_zero(e.operand, arg, R)
    if not isinstance(e, ast.Call):
        return False
    if isinstance(e.func, ast.Attribute) and e.func.attr == "all" and \
            not e.args and not (call_name(e) or "").startswith("np."):
        m = e.func.value
    elif (call_name(e) or "") in ("np.all", "numpy.all", "all") and \
            len(e.args) == 1 and not e.keywords:
        m = e.args[0]
    else:
        return False
    return isinstance(m, ast.Compare) and len(m.ops) == 1 and isinstance(
        m.ops[0], ast.NotEq) and {norm(m.left), norm(m.comparators[0])} == \
        {arg, "0"}


def _pre_rate_shape(pr):
    """_pre_rate(b) is True iff no entry of b equals 0"""
    from ..symres import Resolver
    arg = pr.args.args[1].arg if len(pr.args.args) > 1 else None
    if arg is None:
        return False
    R = Resolver(pr)
    body = [s for s in pr.body if not (isinstance(s, ast.Expr) and isinstance(
        s.value, ast.Constant))]
    # assignments feeding the test / return are resolved by R
    body = [s for s in body if not isinstance(s, ast.Assign)]
    if len(body) == 1 and isinstance(body[0], ast.Return):
        return _no_zero(body[0].value, arg, R)
    if isinstance(body[0], ast.If):
        i = body[0]
        tail = body[1:]
        def ret_const(stmts):
            r = [s for s in stmts if not isinstance(s, ast.Expr)]
            if len(r) == 1 and isinstance(r[0], ast.Return) and isinstance(
                    r[0].value, ast.Constant) and isinstance(
                        r[0].value.value, bool):
                return r[0].value.value
            return None
        a = ret_const(i.body)
        b = ret_const(i.orelse if i.orelse else tail)
        if a is None or b is None or a == b:
            return False
        if a is False:
            return _some_zero(i.test, arg, R)
        return _no_zero(i.test, arg, R)
    return False


def _sklearn_init_params(clsname):
    base = pathlib.Path(sysconfig.get_paths()["purelib"]) / "sklearn"
    for sub in ("ensemble", "svm", "tree", "linear_model", "neighbors"):
        d = base / sub
        if not d.is_dir():
            continue
        for f in sorted(d.glob("*.py")):
            try:
                src = f.read_text()
            except OSError:
                continue
            if f"class {clsname}(" not in src:
                continue
            tree = ast.parse(src)
            for n in tree.body:
                if isinstance(n, ast.ClassDef) and n.name == clsname:
                    for m in n.body:
                        if isinstance(m, ast.FunctionDef) and \
                                m.name == "__init__":
                            return func_params(m)
    return None


SEEDED_FALLBACK = {"AdaBoostRegressor", "DecisionTreeRegressor",
                   "ExtraTreesRegressor", "GradientBoostingRegressor",
                   "RandomForestRegressor", "LinearSVR"}


def r4_seeded(ctx):
    regm = ctx.repo.mod("rate.regressors")
    node = regm.assign("reg_dict")
    if not isinstance(node, ast.Dict):
        raise Undecided("reg_dict is not a dict literal")
    ctx.floor("regressors", len(node.keys), 7)
    for k, v in zip(node.keys, node.values):
        name = const_str(k)
        if not (isinstance(v, (ast.List, ast.Tuple)) and len(v.elts) == 2):
            raise Undecided(f"reg_dict['{name}'] is not [class, kwargs]")
        cls = (dotted(v.elts[0]) or "").split(".")[-1]
        kws = literal(v.elts[1])
        params = _sklearn_init_params(cls)
        if params is None:
            takes = cls in SEEDED_FALLBACK
            ctx.assume(f"sklearn source of {cls} not found; used the frozen "
                       "table")
        else:
            takes = "random_state" in params
        if takes:
            rs = kws.get("random_state") if isinstance(kws, dict) else None
            ctx.check(isinstance(rs, int) and not isinstance(rs, bool), v,
                      f"{name}: {cls}(random_state={rs})",
                      f"regressor '{name}' ({cls}) takes random_state but "
                      "the default hyper-parameters do not fix it: ratings "
                      "differ between calls/processes")
        else:
            ctx.ok(v, f"{name}: {cls} has no random_state")
    # nothing on the rating path mutates module-level tables
    cg = CallGraph(ctx.repo)
    reach = cg.reachable([("indent", "Indentation.rate_quality")])
    ctx.floor("functions reachable from rate_quality", len(reach), 20)
    tables = {m.name: effects.module_tables(m)
              for m in ctx.repo.modules.values()}
    for (mn, q) in sorted(reach):
        f = cg.func((mn, q))
        ctx.analysed(f)
        m = ctx.repo.mod(mn)
        tabs = set(tables[mn])
        for alias, tgt in m.imports.items():
            # imported tables (from .regressors import reg_dict)
            src = tgt.lstrip(".")
            modpart, _, nm = src.rpartition(".")
            for cand in (modpart, "rate." + modpart, "model." + modpart):
                if cand in tables and nm in tables[cand]:
                    tabs.add(alias)
        if not tabs:
            continue
        al = effects.alias_map(f, {t: f"global:{t}" for t in tabs})
        for node_, root, how in effects.mutations(f, al):
            ctx.fail(node_, how[:90],
                     f"{mn}.{q} mutates the module-level table `{root}` "
                     "(e.g. the default hyper-parameters): ratings depend "
                     "on which calls happened earlier in the process")


def r5_determinism(ctx):
    cg = CallGraph(ctx.repo)
    reach = cg.reachable([("indent", "Indentation.rate_quality")])
    bad = 0
    for (mn, q) in sorted(reach):
        f = cg.func((mn, q))
        for node, what in effects.ambient_reads(f) + effects.set_iteration(f):
            bad += 1
            ctx.fail(node, norm(node)[:60],
                     f"{mn}.{q} (on the rating path) reads {what}")
    if not bad:
        ctx.ok(ctx.repo.mod("indent").func("Indentation.rate_quality"),
               f"no ambient reads in {len(reach)} functions on the rating "
               "path")
    # the rating cache is dropped when the data change
    from .c03 import r5_preprocessing_resets
    r5_preprocessing_resets(ctx)


def r6_training_set(ctx):
    """sklearn raises on NaN/inf, and an exclusion criterion outside the
    selected names changes the rating (shared with C15-R2/R3)"""
    from .c15 import r2_stages, r3_name_selector
    r2_stages(ctx)
    r3_name_selector(ctx)


def _curve_leaves(fn, own_props, is_curve_method):
    """names of `fn` whose value depends on the curve being rated, and a
    predicate that tells whether an expression reads the curve"""
    params = func_params(fn)
    curve_params = {p for p in params if p in ("idnt", "datasets", "dataset",
                                                "samples", "indent")}

    def direct(e):
        for n in ast.walk(e):
            if isinstance(n, ast.Attribute) and isinstance(
                    n.value, ast.Name) and n.value.id == "self":
                if is_curve_method or n.attr == "dataset" or \
                        n.attr in own_props:
                    return True
            if isinstance(n, ast.Name) and n.id in curve_params:
                return True
        return False
    tainted = set(curve_params)
    for _ in range(6):
        grew = False
        for st in walk_no_nested(fn, False):
            tg, val = None, None
            if isinstance(st, ast.Assign):
                tg, val = st.targets, st.value
            elif isinstance(st, ast.AugAssign):
                tg, val = [st.target], st.value
            elif isinstance(st, (ast.For, ast.comprehension)):
                tg, val = [st.target], st.iter
            if tg is None:
                continue
            dep = direct(val) or any(isinstance(n, ast.Name)
                                     and n.id in tainted
                                     for n in ast.walk(val))
            if dep:
                for t in tg:
                    for n in ast.walk(t):
                        if isinstance(n, ast.Name) and n.id not in tainted:
                            tainted.add(n.id)
                            grew = True
        if not grew:
            break

    def reads_curve(e):
        return direct(e) or any(isinstance(n, ast.Name) and n.id in tainted
                                for n in ast.walk(e))
    return reads_curve


def r7_no_data_dependent_abort(ctx):
    """rate_quality never raises, whatever the state of the curve: every
    `raise`/`assert` reachable from it is either validation of the
    configuration arguments (regressor, training set, names, type
    selection), or sits in an accessor whose every use is guarded by the
    validity predicate it tests, never a test on the curve's data."""
    cg = CallGraph(ctx.repo)
    root = ("indent", "Indentation.rate_quality")
    reach = cg.reachable([root]) | {root}
    fm = ctx.repo.mod("rate.features")
    own_props = set()
    for q, f in fm.funcs.items():
        if q.startswith("IndentationFeatures.") and any(
                dotted(d) in ("property", "functools.cached_property",
                              "cached_property") for d in f.decorator_list):
            own_props.add(q.split(".", 1)[1])
    ctx.floor("accessor properties of IndentationFeatures", len(own_props), 6)
    sites = 0
    funcs = {}
    for k in sorted(reach):
        try:
            funcs[k] = cg.func(k)
        except KeyError:
            continue
    for (mn, q), f in funcs.items():
        ctx.analysed(f)
        is_curve = mn == "indent" and q.startswith("Indentation.")
        reads_curve = None
        for n in walk_no_nested(f, False):
            if not isinstance(n, (ast.Raise, ast.Assert)):
                continue
            if isinstance(n, ast.Raise) and n.exc is None:
                continue
            # an abort caught inside the same function is not an exit
            par = getattr(n, "_parent", None)
            caught = False
            child = n
            while par is not None and par is not f:
                if isinstance(par, ast.Try) and par.handlers and any(
                        child is s_ for s_ in par.body):
                    caught = True
                child, par = par, getattr(par, "_parent", None)
            if caught:
                continue
            sites += 1
            if reads_curve is None:
                reads_curve = _curve_leaves(f, own_props, is_curve)
            conds = list(conditions_at(n))
            tests = [(a.node, a.pol) for a in conds]
            if isinstance(n, ast.Assert):
                tests.append((n.test, False))
            # (`arg is None` tests which arguments were given, not the data)
            def none_test(t):
                if isinstance(t, ast.BoolOp):
                    return all(none_test(v) for v in t.values)
                if isinstance(t, ast.UnaryOp) and isinstance(t.op, ast.Not):
                    return none_test(t.operand)
                return isinstance(t, ast.Compare) and len(t.ops) == 1 and \
                    isinstance(t.ops[0], (ast.Is, ast.IsNot)) and \
                    isinstance(t.left, ast.Name) and isinstance(
                        t.comparators[0], ast.Constant)
            dep = [(t, pol) for t, pol in tests
                   if reads_curve(t) and not none_test(t)]
            kind = "assert" if isinstance(n, ast.Assert) else "raise"
            if not dep:
                ctx.ok(n, f"{q}: {kind} depends on the configuration "
                       "arguments only")
                continue
            # accessor guarded by a validity predicate of the same object
            preds = set()
            pure_pred = True
            for t, pol in dep:
                t0 = t.operand if isinstance(t, ast.UnaryOp) and isinstance(
                    t.op, ast.Not) else t
                if isinstance(t0, ast.Attribute) and isinstance(
                        t0.value, ast.Name) and t0.value.id == "self" and \
                        t0.attr.startswith(("has_", "is_")):
                    preds.add(t0.attr)
                else:
                    pure_pred = False
            meth = q.split(".")[-1]
            if pure_pred and preds and meth in own_props:
                bad = []
                uses = 0
                for (m2, q2), f2 in funcs.items():
                    for u in walk_no_nested(f2, False):
                        if isinstance(u, ast.Attribute) and u.attr == meth \
                                and isinstance(u.ctx, ast.Load) and \
                                isinstance(u.value, ast.Name):
                            uses += 1
                            obj = u.value.id
                            have = {a.text for a in conditions_at(u)
                                    if a.pol}
                            if not any(f"{obj}.{p_}" in have for p_ in preds):
                                bad.append((u, q2))
                for u, q2 in bad:
                    ctx.fail(u, f"{q2}: .{meth} read without "
                             f"{'/'.join(sorted(preds))}",
                             f"{q2} reads `.{meth}` without testing "
                             f"{'/'.join(sorted(preds))} first: for a curve "
                             f"without it {q} raises and the exception "
                             "leaves rate_quality")
                if not bad:
                    ctx.ok(n, f"{q}: every one of the {uses} reads of "
                           f".{meth} on the rating path is guarded by "
                           f"{'/'.join(sorted(preds))}")
                continue
            txt = " and ".join(("" if pol else "not ") + f"({norm(t)})"
                               for t, pol in dep)
            ctx.fail(n, f"{kind} on curve data in {q}",
                     f"{mn}.{q} (reachable from rate_quality) aborts with "
                     f"`{norm(n)[:70]}` when {txt} - a condition on the "
                     "curve's data: for such a curve rate_quality raises "
                     "instead of returning a rating")
    ctx.floor("raise/assert sites on the rating path", sites, 5)


_COMBINERS = ("np.concatenate", "np.vstack", "np.hstack", "np.stack",
              "np.column_stack", "np.dstack")


def r8_empty_selection(ctx):
    """A feature selection can be empty for one type (names of binary
    features only): combining the per-feature arrays of a selection must not
    assume at least one entry."""
    cg = CallGraph(ctx.repo)
    root = ("indent", "Indentation.rate_quality")
    reach = cg.reachable([root]) | {root}
    n_sites = 0
    for k in sorted(reach):
        try:
            f = cg.func(k)
        except KeyError:
            continue
        stmts = [s_ for s_ in walk_no_nested(f, False)]

        def origin(e, before, depth=0):
            """the selection call the list `e` is built from, or None"""
            if depth > 6 or e is None:
                return None
            if isinstance(e, ast.Call) and (call_name(e) or "").endswith(
                    "get_feature_names"):
                return e
            if isinstance(e, (ast.ListComp, ast.GeneratorExp)):
                if e.generators[0].ifs:
                    return None
                return origin(e.generators[0].iter, before, depth + 1)
            if isinstance(e, ast.Call) and call_name(e) in (
                    "list", "tuple", "sorted") and e.args:
                return origin(e.args[0], before, depth + 1)
            if isinstance(e, ast.Name):
                defs = [s_ for s_ in stmts if isinstance(s_, ast.Assign)
                        and norm(s_.targets[0]) == e.id
                        and s_.lineno < before]
                if not defs:
                    return None
                d = max(defs, key=lambda s_: s_.lineno)
                if isinstance(d.value, ast.List) and not d.value.elts:
                    for lp in stmts:
                        if isinstance(lp, ast.For) and lp.lineno > d.lineno \
                                and lp.lineno < before and any(
                                    isinstance(c, ast.Call) and isinstance(
                                        c.func, ast.Attribute)
                                    and c.func.attr == "append"
                                    and norm(c.func.value) == e.id
                                    and not conditions_at(c, stop=lp)
                                    for b in lp.body for c in ast.walk(b)):
                            return origin(lp.iter, lp.lineno, depth + 1)
                    return None
                return origin(d.value, d.lineno, depth + 1)
            return None
        for c in calls_in(f):
            if call_name(c) not in _COMBINERS or not c.args:
                continue
            src = origin(c.args[0], c.lineno)
            if src is None:
                continue
            n_sites += 1
            wt = kwarg(src, "which_type")
            restricted = wt is not None and literal(wt) not in (
                "all", ["all"], None)
            if wt is not None and isinstance(wt, ast.Name):
                # forwarded from a caller: restricted if any caller says so
                restricted = True
            guard = any(a.pol and (a.text in (norm(c.args[0]),
                                              f"len({norm(c.args[0])})")
                                   or a.text.startswith(
                                       f"len({norm(c.args[0])}) >"))
                        for a in conditions_at(c))
            ctx.check(guard or not restricted, c,
                      f"{k[1]}: {call_name(c)} over the arrays of a feature "
                      "selection",
                      f"{k[0]}.{k[1]} calls {call_name(c)}() on one array "
                      f"per name returned by `{norm(src)[:60]}`: a "
                      "selection that holds no feature of that type (e.g. "
                      "names=['feat_bin_size']) gives an empty list, "
                      f"{call_name(c)} raises ValueError and rate_quality "
                      "raises instead of returning a rating")
    ctx.floor("array combinations over a feature selection on the rating "
              "path", n_sites, 1)


def r9_features_never_raise(ctx):
    """rate_quality computes every selected feature: a feature method that
    raises for some fitted curve (an empty slice handed to argmin, a
    gradient of one sample) makes rate_quality raise instead of returning
    -1 for an undefined feature"""
    from .c17 import r2_nan_not_error
    r2_nan_not_error(ctx)


def r10_sample_columns_by_rater_names(ctx):
    """A feature vector handed to the standalone rater is laid out by the
    rater's own names (`self.names`): its columns are split by position in
    that list.  `get_feature_names(..., ret_indices=True)` yields positions
    in the list of *all* features - using them on such a vector picks the
    wrong columns for every feature subset."""
    m = ctx.repo.mod("rate.rater")
    f = m.func("IndentationRater.rate")
    ctx.analysed(f)
    ps = func_params(f)
    if "samples" not in ps:
        raise Undecided("IndentationRater.rate has no `samples` parameter")
    # names that hold all-feature positions
    allpos = set()
    for st in walk_no_nested(f, False):
        if isinstance(st, ast.Assign) and isinstance(st.value, ast.Call) and \
                (call_name(st.value) or "").endswith("get_feature_names"):
            ri = kwarg(st.value, "ret_indices")
            if ri is not None and not (isinstance(ri, ast.Constant)
                                       and ri.value is False):
                for t in st.targets:
                    for n in ast.walk(t):
                        if isinstance(n, ast.Name):
                            allpos.add(n.id)
    # values derived from the samples argument
    derived = {"samples"}
    for _ in range(4):
        for st in walk_no_nested(f, False):
            tg, val = None, None
            if isinstance(st, ast.Assign):
                tg, val = st.targets, st.value
            elif isinstance(st, ast.For):
                tg, val = [st.target], st.iter
            if tg and any(isinstance(n, ast.Name) and n.id in derived
                          for n in ast.walk(val)):
                for t in tg:
                    for n in ast.walk(t):
                        if isinstance(n, ast.Name):
                            derived.add(n.id)
    n_idx = 0
    for sb in walk_no_nested(f, False):
        if not (isinstance(sb, ast.Subscript) and isinstance(
                sb.value, ast.Name) and sb.value.id in derived
                and isinstance(sb.ctx, ast.Load)):
            continue
        idx_names = {n.id for n in ast.walk(sb.slice)
                     if isinstance(n, ast.Name)}
        if not idx_names:
            continue
        n_idx += 1
        bad = idx_names & allpos
        ctx.check(not bad, sb, f"rate(): {norm(sb)[:40]} indexed by position "
                  "in self.names",
                  f"IndentationRater.rate splits the given feature vector "
                  f"with `{norm(sb)[:50]}`, where `{', '.join(sorted(bad))}` "
                  "are positions in the list of all features "
                  "(ret_indices=True), not in the rater's `self.names`: "
                  "for a feature subset the standalone rater reads the "
                  "wrong columns (or raises IndexError) while rate_quality "
                  "does not")
    ctx.floor("column selections of the samples argument", n_idx, 1)



def r11_training_set_as_given(ctx):
    """The training set used is the one passed: `get_rater` replaces the
    argument by a shipped set only when the argument *itself* is one of the
    shipped labels - a test on something derived from it (its base name, a
    lower-cased copy) silently swaps a user's directory for the shipped set
    of the same name."""
    from ..symres import Resolver
    m = ctx.repo.mod("rate.rater")
    f = m.func("get_rater")
    ctx.analysed(f)
    R = Resolver(f, keep={"training_set"})
    n = 0
    for t in ast.walk(f):
        if not (isinstance(t, ast.Compare) and len(t.ops) == 1
                and isinstance(t.ops[0], (ast.In, ast.NotIn))):
            continue
        rhs = R.text(t.comparators[0])
        if "get_available_training_sets" not in rhs:
            continue
        n += 1
        lhs = R.resolve(t.left)
        ctx.check(isinstance(lhs, ast.Name) and lhs.id == "training_set", t,
                  "shipped-label test on the argument itself",
                  f"get_rater tests `{norm(lhs)[:50]}` against the shipped "
                  "labels instead of the `training_set` argument itself: a "
                  "user directory whose derived name equals a shipped label "
                  "is replaced by the shipped training set")
    ctx.floor("shipped-label tests in get_rater", n, 1)
    # the path handed to the loader is the argument (or the shipped path)
    for c in calls_in(f):
        if (call_name(c) or "").endswith("load_training_set"):
            pth = kwarg(c, "path")
            if pth is None:
                continue
            vals = R.reaching_values(pth) if hasattr(
                R, "reaching_values") and isinstance(pth, ast.Name) else [pth]
            for v in vals or [pth]:
                tv = norm(v)
                ctx.check(tv == "training_set" or "get_training_set_path"
                          in tv, c, f"loader path = {tv[:50]}",
                          f"get_rater loads `{tv[:60]}` instead of the "
                          "training set it was given")


RULES = [
    ("C09-R1", "fit-properties reads on the rating path are guarded "
     "(inter-procedural key-presence typestate)", r1_key_presence),
    ("C09-R2", "cache key covers hash and every rater input at agreeing "
     "positions", r2_cache_key),
    ("C09-R3", "pass-through of the rating; exclusion -> NaN -> predict",
     r3_pass_through),
    ("C09-R4", "seeded regressors; hyper-parameter table never mutated",
     r4_seeded),
    ("C09-R5", "no ambient inputs on the rating path; cache dropped with "
     "the data", r5_determinism),
    ("C09-R6", "the rater's training set is sanitised (NaN rows, "
     "imputation, both infinities) and features at rating time follow the "
     "rater's names", r6_training_set),
    ("C09-R7", "no raise/assert on the rating path tests the curve's data "
     "(configuration checks and guarded accessors only)",
     r7_no_data_dependent_abort),
    ("C09-R8", "arrays of a feature selection are combined only when the "
     "selection is not empty", r8_empty_selection),
    ("C09-R9", "no selected feature raises for a fitted curve (empty "
     "slices, one-sample gradients)", r9_features_never_raise),
    ("C09-R10", "the standalone rater splits a feature vector by position "
     "in its own names", r10_sample_columns_by_rater_names),
    ("C09-R11", "get_rater uses the training set it is given (shipped "
     "labels are recognised on the argument itself)",
     r11_training_set_as_given),
]
