"""C19 — CLI profile persists what was entered and every producible profile
can be fitted."""
from __future__ import annotations

import ast

from .. import facts, fitrules
from ..astutil import (call_name, calls_in, const_str, dotted, kwarg, literal,
                       norm, str_template, walk_no_nested)
from ..cfg import CFG
from ..dataflow import reaching_defs
from ..guards import conditions_at
from ..loader import AnchorError, Undecided
from ..symres import Resolver

EXPLANATION = (
    "Producer/consumer agreement between the interactive setup, the profile "
    "file and the batch fit: (R1) every range-type literal the setup "
    "accepts is one the fitter accepts; every keyword fit_data passes to "
    "fit_model is a settings key read from the profile entry of the same "
    "name; every literal key read through Profile[...] has a default; the "
    "parameter used for the statistics column exists in every selectable "
    "model; (R2) each input() answer is converted only under a truthiness "
    "test of that same answer, a non-empty answer reaches a profile store, "
    "and the true/false answer is mapped to the matching boolean; (R3) the "
    "stored preprocessing list passes the order check before it is stored; "
    "(R4) write-through persistence: __setitem__ is load-assign-save with "
    "no transformation, load reads the file on every call (no per-object "
    "cache), save/load are json inverses, __getitem__ returns the loaded "
    "value or the default, get_fit_params overrides exactly value/vary "
    "from the 'fit param <p> value/vary' entries; (R5) one statistics row "
    "per curve built from path, enumeration, fitted E and the rating "
    "rounded to one decimal, computed with the profile's regressor and "
    "training set; (R6) the legacy key=value loader is interpreted over "
    "the cases (segment, approach), (segment, retract), (segment, any "
    "other text), (other key, any text): exactly the two documented words "
    "are mapped to '0'/'1' and every other entry is stored as written.")
NOT_DECIDED = [
    "equivalence of legacy key=value profiles with their JSON form beyond "
    "the word mapping of `segment` (R6) and type-directed conversion",
    "that lmfit keeps a stored value inside the parameter's bounds",
]


def _profile_cls(ctx):
    m = ctx.repo.mod("cli.profile")
    return m, m.methods("Profile")


def r1_vocabularies(ctx):
    pm, meths = _profile_cls(ctx)
    sp = pm.func("setup_profile")
    ctx.analysed(sp)
    # (a) range types
    fitter = ctx.repo.mod("fit").func("IndentationFitter.__init__")
    accepted_by_fit = None
    for n in ast.walk(fitter):
        if isinstance(n, ast.Compare) and isinstance(n.ops[0], ast.NotIn) \
                and "range_type" in norm(n.left):
            c0 = n.comparators[0]
            if isinstance(c0, ast.Name) and c0.id in ctx.repo.mod(
                    "fit").assigns:
                c0 = ctx.repo.mod("fit").assigns[c0.id][-1]
            accepted_by_fit = literal(c0)
            if isinstance(accepted_by_fit, tuple):
                accepted_by_fit = list(accepted_by_fit)
    if not isinstance(accepted_by_fit, list):
        raise AnchorError("fitter's accepted range types not found")
    rt_lists = []
    for n in ast.walk(sp):
        if isinstance(n, ast.Compare) and isinstance(
                n.ops[0], (ast.NotIn, ast.In)):
            c1 = n.comparators[0]
            if isinstance(c1, ast.Name) and c1.id in pm.assigns and len(
                    pm.assigns[c1.id]) == 1:
                c1 = pm.assigns[c1.id][-1]
            lst = literal(c1)
            if isinstance(lst, (list, tuple)) and "absolute" in lst:
                rt_lists.append((n, list(lst)))
    ctx.floor("range-type vocabulary in setup_profile", len(rt_lists), 1)
    # the value that is tested is the value that is stored
    rt_stores = [st for st in walk_no_nested(sp, False)
                 if isinstance(st, ast.Assign) and isinstance(
                     st.targets[0], ast.Subscript)
                 and const_str(st.targets[0].slice) == "range_type"]
    ctx.floor("range_type store in setup_profile", len(rt_stores), 1)
    for n, lst in rt_lists:
        for st in rt_stores:
            ctx.check(norm(st.value) == norm(n.left), st,
                      f"stored range type `{norm(st.value)}` is the tested "
                      f"`{norm(n.left)}`",
                      f"setup_profile tests `{norm(n.left)}` against the "
                      f"accepted range types but stores `{norm(st.value)}`:"
                      f" an answer that only matches after the conversion "
                      f"is stored as typed and rejected by the fitter")
    for n, lst in rt_lists:
        extra = [x for x in lst if x not in accepted_by_fit]
        ctx.check(not extra, n, f"setup accepts range types {lst}",
                  f"the interactive setup accepts and stores range type(s) "
                  f"{extra} which IndentationFitter rejects (it knows "
                  f"{accepted_by_fit}): the batch fit raises FitKeyError "
                  "for such a profile")
    dflt_rt = literal(pm.assign("DEFAULTS")).get("range_type")
    ctx.check(dflt_rt in accepted_by_fit, pm.assign("DEFAULTS"),
              f"default range_type '{dflt_rt}'", "default range type "
              "rejected by the fitter")
    # (b) fit_data -> fit_model keywords
    rm = ctx.repo.mod("cli.rating")
    fd = rm.func("fit_data")
    ctx.analysed(fd)
    dflt = facts.fp_default(ctx.repo)
    fm = [c for c in calls_in(fd) if (call_name(c) or "").endswith(
        ".fit_model")]
    ctx.floor("fit_model call in fit_data", len(fm), 1)
    profile_defaults = literal(pm.assign("DEFAULTS"))
    Rfd = Resolver(fd, keep={"params", "pf"})
    for kw in fm[0].keywords:
        ctx.check(kw.arg in dflt, kw.value, f"fit_model({kw.arg}=...)",
                  f"fit_data passes '{kw.arg}' which is not a fit setting")
        v = Rfd.text(kw.value)
        if kw.arg == "params_initial":
            ctx.check(v == "params", kw.value, "params_initial <- "
                      "pf.get_fit_params()", "initial parameters are not "
                      "the profile's")
            continue
        ctx.check(v == f"pf['{kw.arg}']", kw.value,
                  f"{kw.arg} <- {v}",
                  f"setting '{kw.arg}' is filled from {v} instead of the "
                  f"profile entry '{kw.arg}'")
    passed = {kw.arg for kw in fm[0].keywords}
    for k in profile_defaults:
        if k in dflt and k not in ("preprocessing", "preprocessing_options"):
            ctx.check(k in passed, fm[0], f"profile entry '{k}' reaches the "
                      "fit", f"profile entry '{k}' is never passed to "
                      "fit_model: the stored value has no effect")
    ap = [c for c in calls_in(fd) if (call_name(c) or "").endswith(
        ".apply_preprocessing")]
    ok = bool(ap) and {kw.arg: Rfd.text(kw.value)
                       for kw in ap[0].keywords} == {
        "preprocessing": "pf['preprocessing']",
        "options": "pf['preprocessing_options']"}
    ctx.check(ok, fd, "preprocessing and options from the profile",
              "the batch fit does not preprocess with the profile's steps "
              "and options")
    # (c) literal keys read through a Profile have defaults
    n_reads = 0
    for m, q, f in ctx.repo.all_funcs():
        if not m.name.startswith("cli"):
            continue
        for n in walk_no_nested(f, False):
            if isinstance(n, ast.Subscript) and isinstance(n.ctx, ast.Load) \
                    and norm(n.value) == "pf" and const_str(n.slice):
                n_reads += 1
                ctx.check(const_str(n.slice) in profile_defaults, n,
                          f"profile read pf['{const_str(n.slice)}']",
                          f"pf['{const_str(n.slice)}'] has no entry in "
                          "DEFAULTS: Profile.__getitem__ raises KeyError")
    ctx.floor("literal profile reads", n_reads, 10)
    # (d) statistics parameter exists in every selectable model
    fp_ = rm.func("fit_perform")
    ctx.analysed(fp_)
    stat_keys = set()
    # (column functions of this module that fit_perform names count as
    # part of it)
    scope_ = [(fp_, None)] + [
        (rm.funcs[n.id], n) for n in ast.walk(fp_)
        if isinstance(n, ast.Name) and n.id in rm.funcs
        and rm.funcs[n.id] is not fp_]
    for n, ref_ in [(x, r_) for f_, r_ in scope_ for x in ast.walk(f_)]:
        if isinstance(n, ast.Subscript) and const_str(n.slice) and isinstance(
                n.value, ast.Subscript) and const_str(
                    n.value.slice) == "params_fitted":
            # (reported where fit_perform names the column function)
            stat_keys.add((const_str(n.slice), ref_ if ref_ is not None
                           else n))
    ctx.floor("fitted parameter used for the statistics", len(stat_keys), 1)
    for mod in facts.model_modules(ctx.repo):
        keys = facts.module_list(mod, "parameter_keys")
        mk = literal(mod.assign("model_key"))
        for k, node in stat_keys:
            ctx.check(k in keys, node,
                      f"statistics parameter '{k}' in model '{mk}'",
                      f"the batch statistics read fitted parameter '{k}', "
                      f"which model '{mk}' (selectable in the setup) does "
                      "not have: nanite-fit raises KeyError for such a "
                      "profile")


def r2_answers(ctx):
    pm, meths = _profile_cls(ctx)
    sp = pm.func("setup_profile")
    cfg = CFG(sp)
    _model_answer_guard(ctx, sp)
    answers = {}
    for st in walk_no_nested(sp, False):
        if isinstance(st, ast.Assign) and isinstance(st.value, ast.Call) and \
                call_name(st.value) == "input" and isinstance(
                    st.targets[0], ast.Name):
            answers.setdefault(st.targets[0].id, []).append(st)
    ctx.floor("input() answers in setup_profile", len(answers), 6)
    # "nothing entered" is decided on the text typed: an answer that is
    # converted (float/int/bool) before it is tested makes an accepted
    # answer with a false value ('0') look like no answer
    for c in calls_in(sp):
        if call_name(c) != "input":
            continue
        par = getattr(c, "_parent", None)
        while isinstance(par, (ast.Attribute, ast.Call)) and isinstance(
                getattr(par, "func", par), ast.Attribute) and (
                par.attr if isinstance(par, ast.Attribute)
                else par.func.attr) in ("strip", "lower", "lstrip", "rstrip",
                                        "casefold"):
            par = getattr(par, "_parent", None)
        conv = par
        hops = 0
        while conv is not None and not isinstance(conv, ast.stmt) and \
                hops < 4:
            if isinstance(conv, ast.Call) and call_name(conv) in (
                    "float", "int", "bool", "complex"):
                ctx.fail(c, "answer tested as typed",
                         "setup_profile converts the answer with "
                         f"{call_name(conv)}() before testing whether "
                         "anything was entered: the accepted answer '0' is "
                         "treated as no answer and the old value stays "
                         "stored")
                break
            conv = getattr(conv, "_parent", None)
            hops += 1
    CONV = {"float", "int"}
    for var, sts in answers.items():
        # conversions of the answer
        uses = []
        for n in walk_no_nested(sp, False):
            if isinstance(n, ast.Call) and call_name(n) in CONV and n.args \
                    and any(isinstance(x, ast.Name) and x.id == var
                            for x in ast.walk(n.args[0])):
                uses.append(n)
            if isinstance(n, ast.Call) and isinstance(n.func, ast.Attribute) \
                    and n.func.attr == "split" and isinstance(
                        n.func.value, ast.Name) and n.func.value.id == var:
                uses.append(n)
        for u in uses:
            conds = conditions_at(u)
            ok = any(a.pol and a.text == var for a in conds)
            others = [a.text for a in conds if a.pol and a.text in answers
                      and a.text != var]
            msg = (f"the answer `{var}` is converted without testing that "
                   "it is non-empty")
            if others and not ok:
                msg = (f"the answer `{var}` is converted under a test of "
                       f"`{others[0]}`: an empty `{var}` raises ValueError "
                       f"and a given `{var}` is dropped when `{others[0]}` "
                       "is empty")
            ctx.check(ok, u, f"{norm(u)[:50]} under `if {var}:`", msg)
        # a non-empty answer reaches a store into the profile / parameters
        stores = []
        for n in walk_no_nested(sp, False):
            if isinstance(n, ast.Assign):
                t = n.targets[0]
                if (isinstance(t, ast.Subscript) and norm(t.value) in (
                        "pf", "ival")) or (isinstance(t, ast.Attribute)
                                           and t.attr in ("value", "vary")):
                    if any(isinstance(x, ast.Name) and x.id == var
                           for x in ast.walk(n.value)) or _derived(
                               n.value, var, sp):
                        stores.append(n)
        ctx.check(bool(stores), sts[0], f"answer `{var}` is stored",
                  f"the answer `{var}` never reaches the profile")
    # an answer that was rejected (the handler of its validation prints and
    # asks again) is never stored: no store is reachable from the handler
    # without the stored variable having been assigned anew
    for tr in walk_no_nested(sp, False):
        if not isinstance(tr, ast.Try):
            continue
        for h in tr.handlers:
            if not any(isinstance(x, ast.Continue) for s_ in h.body
                       for x in ast.walk(s_)):
                continue
            hn = cfg.node_of_stmt(h.body[0]) if h.body else None
            if hn is None:
                continue
            for n in cfg.nodes:
                st = n.ast if n.kind == "stmt" else None
                if not (isinstance(st, ast.Assign) and isinstance(
                        st.targets[0], ast.Subscript) and norm(
                        st.targets[0].value) == "pf" and isinstance(
                        st.value, ast.Name)):
                    continue
                x = st.value.id
                used = {nm.id for s_ in tr.body for nm in ast.walk(s_)
                        if isinstance(nm, ast.Name)}
                for _ in range(3):     # what the validated value derives from
                    for a_ in walk_no_nested(sp, False):
                        if isinstance(a_, ast.Assign) and norm(
                                a_.targets[0]) in used:
                            used |= {nm.id for nm in ast.walk(a_.value)
                                     if isinstance(nm, ast.Name)}
                used -= {"pathlib", "rate", "ir", "pf", "np", "model"}
                related = x in used or any(
                    isinstance(a_, ast.Assign) and norm(a_.targets[0]) == x
                    and any(isinstance(nm, ast.Name) and nm.id in used
                            for nm in ast.walk(a_.value))
                    for a_ in walk_no_nested(sp, False))
                if not related:
                    continue
                avoid = {m.id for m in cfg.nodes if m.kind == "stmt"
                         and isinstance(m.ast, ast.Assign)
                         and any(isinstance(t_, ast.Name) and t_.id == x
                                 for t_ in m.ast.targets)}
                reach = cfg.reach([hn.id], avoid=avoid,
                                  skip_labels=("exc",))
                ctx.check(n.id not in reach, st,
                          f"{norm(st)[:50]} not reachable with a rejected "
                          "answer",
                          f"setup_profile stores `{x}` in "
                          f"{norm(st.targets[0])} on a path that comes from "
                          f"the rejection of that answer (line "
                          f"{h.lineno}): an answer the setup refused is "
                          "written to the profile and the batch fit fails "
                          "with it")
    # a number typed by the user is stored into a float container: an
    # array built from the stored (possibly all-integer) values would
    # truncate it
    for st in walk_no_nested(sp, False):
        if not (isinstance(st, ast.Assign) and isinstance(
                st.targets[0], ast.Subscript) and isinstance(
                st.targets[0].value, ast.Name)):
            continue
        if not any(isinstance(c, ast.Call) and call_name(c) == "float"
                   for c in ast.walk(st.value)):
            continue
        arr = st.targets[0].value.id
        defs = [d.value for d in walk_no_nested(sp, False)
                if isinstance(d, ast.Assign) and norm(d.targets[0]) == arr]
        for d in defs:
            calls_np = [c for c in ast.walk(d) if isinstance(c, ast.Call)
                        and call_name(c) in ("np.array", "np.asarray",
                                             "numpy.array")]
            if not calls_np:
                continue
            floaty = any(kw.arg == "dtype" and "float" in norm(kw.value)
                         for c in calls_np for kw in c.keywords) or (
                isinstance(d, ast.BinOp) and isinstance(
                    d.op, (ast.Mult, ast.Div)) and any(
                    isinstance(x, ast.Constant) and isinstance(
                        x.value, float) for x in (d.left, d.right))) or \
                ".astype(float)" in norm(d)
            ctx.check(floaty, st, f"`{arr}` holds floats before "
                      f"{norm(st)[:40]}",
                      f"setup_profile writes the number typed by the user "
                      f"into `{arr} = {norm(d)[:50]}`, an array that takes "
                      f"the dtype of the stored values: for a profile whose "
                      f"stored values are all integers (the default [0, 0]) "
                      f"the entered value is truncated to an integer "
                      f"(-3e-6 becomes 0) - the stored setting is not the "
                      f"accepted answer")
    # the true/false answer
    vary_assigns = [n for n in walk_no_nested(sp, False)
                    if isinstance(n, ast.Assign) and isinstance(
                        n.targets[0], ast.Attribute)
                    and n.targets[0].attr == "vary"]
    ctx.floor("stores of the vary flag", len(vary_assigns), 1)
    R = Resolver(sp, keep=set(answers))

    def lowered(e, depth=0):
        """e is the lower-cased (and possibly stripped) text of an answer"""
        if depth > 6:
            return False
        low = False
        while isinstance(e, ast.Call) and isinstance(
                e.func, ast.Attribute) and e.func.attr in (
                "strip", "lower") and not e.args:
            low = low or e.func.attr == "lower"
            e = e.func.value
        if not isinstance(e, ast.Name):
            return False
        vs = R.reaching_values(e) if hasattr(e, "_parent") else None
        vs = [v for v in (vs or []) if not (
            isinstance(v, ast.Call) and call_name(v) == "input")]
        if e.id in answers and low and not vs:
            return True
        if vs and len(vs) == 1:
            # the name was re-bound to a processed form of an answer
            return lowered(vs[0], depth + 1) if not low else \
                _from_answer(vs[0], depth + 1)
        return e.id in answers and low

    def _from_answer(e, depth):
        if depth > 6:
            return False
        while isinstance(e, ast.Call) and isinstance(
                e.func, ast.Attribute) and e.func.attr in (
                "strip", "lower") and not e.args:
            e = e.func.value
        if not isinstance(e, ast.Name):
            return False
        if e.id in answers:
            return True
        vs = R.reaching_values(e) if hasattr(e, "_parent") else None
        return bool(vs) and len(vs) == 1 and _from_answer(vs[0], depth + 1)

    def eq_const(nd):
        """(constant, True) for `<lowered answer> == const`"""
        if isinstance(nd, ast.Compare) and len(nd.ops) == 1 and isinstance(
                nd.ops[0], ast.Eq):
            for a_, b_ in ((nd.left, nd.comparators[0]),
                           (nd.comparators[0], nd.left)):
                if const_str(b_) is not None and lowered(a_):
                    return const_str(b_)
        return None

    for st in vary_assigns:
        v = st.value
        if isinstance(v, ast.Compare):
            c = eq_const(v)
            if c is None:
                raise Undecided(f"vary flag computed by {norm(v)}")
            ctx.check(c == "true", st, f"vary := (answer == {c!r})",
                      f"the stored vary flag is `answer == {c!r}` on a "
                      f"lower-cased answer: the accepted answer 'true' is "
                      f"not stored as True")
            member = False
            for a in conditions_at(st):
                nd = a.node
                if a.pol and isinstance(nd, ast.Compare) and isinstance(
                        nd.ops[0], ast.In) and lowered(nd.left):
                    lit = literal(nd.comparators[0])
                    if isinstance(lit, (list, tuple, set)) and set(lit) == \
                            {"true", "false"}:
                        member = True
            if not member:
                raise Undecided("vary flag stored without a test that the "
                                "answer is 'true' or 'false'")
            ctx.ok(st, "only 'true'/'false' answers are stored")
            continue
        # answers mapped through a module-level table:
        # v = TABLE.get(<answer, stripped/lower-cased>)
        tab = _table_lookup(v, sp, pm)
        if tab is not None:
            tname, mapping, keyexpr = tab
            ctx.check(mapping == {"true": True, "false": False}, st,
                      f"answers mapped through {tname} = {mapping}",
                      f"the table {tname} maps the accepted answers to "
                      f"{mapping}: 'true'/'false' are not stored as "
                      "True/False")
            ctx.check(lowered(keyexpr) or isinstance(keyexpr, ast.Name),
                      st, f"table key {norm(keyexpr)[:40]}",
                      "the table is not consulted with the answer")
            continue
        if not isinstance(v, ast.Name):
            ctx.fail(st, f"vary := {norm(v)}",
                     "the stored vary flag is computed by an expression "
                     "instead of the boolean matching the accepted answer")
            continue
        consts = [n for n in walk_no_nested(sp, False)
                  if isinstance(n, ast.Assign) and norm(n.targets[0]) == v.id
                  and isinstance(n.value, ast.Constant)
                  and isinstance(n.value.value, bool)]
        for o in walk_no_nested(sp, False):
            if isinstance(o, ast.Assign) and norm(o.targets[0]) == v.id and \
                    isinstance(o.value, ast.Call) and isinstance(
                    o.value.func, ast.Name) and o.value.func.id.startswith(
                    "_") and o.value.func.id in pm.funcs:
                # asked through a private worker the helper inliner could
                # not place here (it loops until the answer is valid)
                raise Undecided(f"setup_profile: the vary answer is obtained "
                                f"through {o.value.func.id}()")
        seen = set()
        for c in consts:
            conds = conditions_at(c)
            lits = [eq_const(a.node) for a in conds if a.pol]
            lits = [x for x in lits if x is not None]
            ok = lits and lits[-1] == str(c.value.value).lower()
            seen.add(c.value.value)
            ctx.check(ok, c, f"answer {lits} -> {c.value.value}",
                      f"the answer {lits} is stored as {c.value.value}")
        ctx.check(seen == {True, False}, st,
                  "both 'true' and 'false' answers are mapped",
                  "only one of the accepted answers is mapped to a boolean")
        others = [n for n in walk_no_nested(sp, False)
                  if isinstance(n, ast.Assign) and norm(n.targets[0]) == v.id
                  and not isinstance(n.value, ast.Constant)
                  and not (isinstance(n.value, ast.Call)
                           and call_name(n.value) == "input")]
        for o in others:
            if isinstance(o.value, ast.Call) and isinstance(
                    o.value.func, ast.Name) and o.value.func.id.startswith(
                    "_") and o.value.func.id in pm.funcs:
                # asked through a private worker the helper inliner could
                # not place here (it loops until the answer is valid)
                raise Undecided(f"setup_profile: the vary answer is obtained "
                                f"through {o.value.func.id}()")
            ctx.fail(o, f"{v.id} := {norm(o.value)[:50]}",
                     "the accepted true/false answer is transformed by an "
                     "expression before it is stored (e.g. compared with "
                     "'True' after lower-casing: always False)")


def _table_lookup(v, fn, mod, depth=0):
    """(table name, {key: value}, key expression) when `v` is - through
    plain local aliases - `TABLE.get(<expr>)` / `TABLE[<expr>]` of a
    module-level dict literal"""
    if depth > 3:
        return None
    if isinstance(v, ast.Name):
        defs = [st.value for st in walk_no_nested(fn, False)
                if isinstance(st, ast.Assign) and len(st.targets) == 1
                and norm(st.targets[0]) == v.id
                and not (isinstance(st.value, ast.Constant)
                         and st.value.value is None)]
        if len(defs) != 1:
            return None
        return _table_lookup(defs[0], fn, mod, depth + 1)
    key = tname = None
    if isinstance(v, ast.Call) and isinstance(v.func, ast.Attribute) and \
            v.func.attr == "get" and isinstance(v.func.value, ast.Name) and \
            len(v.args) == 1:
        tname, key = v.func.value.id, v.args[0]
    elif isinstance(v, ast.Subscript) and isinstance(v.value, ast.Name):
        tname, key = v.value.id, v.slice
    if tname is None or tname not in mod.assigns or len(
            mod.assigns[tname]) != 1:
        return None
    lit = literal(mod.assigns[tname][-1])
    if not isinstance(lit, dict):
        return None
    return tname, lit, key


def _derived(value, var, fn, depth=0):
    """value uses a local that was assigned (through at most three more
    locals) from an expression of var"""
    names = {x.id for x in ast.walk(value) if isinstance(x, ast.Name)}
    for st in walk_no_nested(fn, False):
        if isinstance(st, (ast.Assign, ast.AugAssign)):
            tg = st.targets[0] if isinstance(st, ast.Assign) else st.target
            base = tg
            while isinstance(base, (ast.Subscript, ast.Attribute)):
                base = base.value
            if isinstance(base, ast.Name) and base.id in names:
                if any(isinstance(x, ast.Name) and x.id == var
                       for x in ast.walk(st.value)):
                    return True
                if depth < 3 and isinstance(tg, ast.Name) and _derived(
                        st.value, var, fn, depth + 1):
                    return True
    return False


def _model_answer_guard(ctx, sp):
    """the chosen model is stored unless it *is* the stored one: the only
    admissible reason to skip the store of a valid answer is that the value
    to be stored equals the stored value"""
    from ..symres import Resolver as _R
    R = _R(sp, keep={"mod", "models", "pf"})
    stores = [st for st in walk_no_nested(sp, False)
              if isinstance(st, ast.Assign)
              and norm(st.targets[0]) == "pf['model_key']"]
    ctx.floor("stores of the chosen model", len(stores), 1)
    for st in stores:
        val = R.text(st.value)
        for a in conditions_at(st):
            t = R.text(a.node)
            if a.text in ("mod",) or t == "mod":
                continue
            if isinstance(a.node, ast.Compare) and len(
                    a.node.ops) == 1 and isinstance(
                    a.node.ops[0], ast.Eq) and not a.pol:
                l_, r_ = R.text(a.node.left), R.text(a.node.comparators[0])
                sides = {l_, r_}
                if sides == {val, "pf['model_key']"}:
                    continue          # skipped only when nothing changes
                # a comparison of the answer with the current position:
                # equal positions must mean equal models
                cur = "models.index(pf['model_key'])"
                if cur in sides:
                    other = (sides - {cur}).pop() if len(sides) == 2 else cur
                    same = val.replace(other, cur)
                    ok = same in (f"models[{cur}]",)
                    ctx.check(ok, st, "skip test agrees with the stored "
                              "value",
                              f"setup_profile skips storing the chosen model "
                              f"when `{other} == {cur}`, but the value it "
                              f"would store is `{val}`: for that answer the "
                              f"chosen model is `{same}`, not the stored "
                              "one - the answer naming the neighbouring "
                              "model is silently dropped")
                    continue
            raise Undecided(f"setup_profile: model stored under {a!r}")


def r3_preprocessing_order(ctx):
    pm, meths = _profile_cls(ctx)
    sp = pm.func("setup_profile")
    stores = [n for n in walk_no_nested(sp, False)
              if isinstance(n, ast.Assign) and norm(n.targets[0]) ==
              "pf['preprocessing']"]
    ctx.floor("stores of the preprocessing list", len(stores), 1)
    for st in stores:
        v = st.value
        checked = isinstance(v, ast.Call) and call_name(v) in (
            "preproc.autosort", "autosort")
        if not checked:
            # a preceding check_order on the same value
            cfg = CFG(sp)
            n = cfg.node_of_stmt(st)
            for c in calls_in(sp):
                if call_name(c) in ("preproc.check_order", "check_order"):
                    cn = cfg.node_containing(c)
                    if cn is not None and n is not None and cfg.dominates(
                            cn.id, n.id):
                        checked = True
        ctx.check(checked, st, f"pf['preprocessing'] = {norm(v)[:60]}",
                  "the interactive setup stores the selected preprocessing "
                  "steps in the order typed, without the order check the "
                  "batch fit enforces: a selection such as '4,1' is "
                  "accepted and every later nanite-fit run raises "
                  "ValueError")


def r4_persistence(ctx):
    pm, meths = _profile_cls(ctx)
    for nm in ("__getitem__", "__setitem__", "load", "save",
               "get_fit_params", "set_fit_params"):
        if nm not in meths:
            raise AnchorError(f"Profile.{nm} missing")
        ctx.analysed(meths[nm])
    si = meths["__setitem__"]
    keyv, valv = si.args.args[1].arg, si.args.args[2].arg
    body = [s for s in si.body if not isinstance(s, ast.If)]
    seq = [norm(s) for s in body]
    ok = (len(seq) == 3 and seq[0].endswith("= self.load()")
          and seq[1] == f"{seq[0].split(' = ')[0]}[{keyv}] = {valv}"
          and seq[2] == f"self.save({seq[0].split(' = ')[0]})")
    ctx.check(ok, si, "__setitem__ = load; assign; save",
              f"Profile.__setitem__ is not load-assign-save of the given "
              f"value: {seq}")
    # load reads the file on every call
    ld = meths["load"]
    cfg = CFG(ld)
    reads = {n.id for n in cfg.nodes if any(
        (call_name(c) or "").endswith((".read_text", ".open", "open"))
        or call_name(c) == "self.load_legacy"
        for c in fitrules.node_calls(n))}
    rets = [n for n in cfg.nodes if n.kind == "stmt"
            and isinstance(n.ast, ast.Return)]
    for r in rets:
        r_ = cfg.reach([cfg.entry], avoid=reads, skip_labels=())
        ctx.check(r.id not in r_ or r.id in reads, r.ast,
                  f"load(): {norm(r.ast)[:50]} after reading the file",
                  "Profile.load can return without reading the file (a "
                  "per-object cache): values written through another "
                  "Profile object are not seen and are overwritten by the "
                  "next write-through")
        for n in ast.walk(r.ast):
            if isinstance(n, ast.Attribute) and isinstance(
                    n.value, ast.Name) and n.value.id == "self" and \
                    n.attr not in ("path", "load_legacy"):
                ctx.fail(r.ast, f"load() returns self.{n.attr}",
                         "Profile.load returns state cached on the object")
    ok = any(call_name(c) == "json.loads" for c in calls_in(ld))
    ctx.check(ok, ld, "load() parses JSON", "load() no longer parses JSON")
    sv = meths["save"]
    d = [c for c in calls_in(sv) if call_name(c) == "json.dumps"]
    ok = bool(d) and norm(d[0].args[0]) == sv.args.args[1].arg and any(
        (call_name(c) or "").endswith(".write_text") for c in calls_in(sv))
    ctx.check(ok, sv, "save() writes json.dumps(dict) to the file",
              "save() does not write the given dictionary as JSON")
    for n in walk_no_nested(sv, False):
        if isinstance(n, ast.Assign) and isinstance(
                n.targets[0], ast.Attribute) and norm(
                    n.targets[0].value) == "self":
            ctx.fail(n, norm(n)[:50], "save() caches state on the object")
    gi = meths["__getitem__"]
    rets = [r for r in walk_no_nested(gi, False) if isinstance(r, ast.Return)]
    R = {}
    for st in walk_no_nested(gi, False):
        if isinstance(st, ast.Assign) and isinstance(st.targets[0], ast.Name):
            R[st.targets[0].id] = norm(st.value)
    k = gi.args.args[1].arg
    ok = len(rets) == 1 and isinstance(rets[0].value, ast.Name) and \
        R.get(rets[0].value.id, "").replace(" ", "") in (
            f"data.get({k},default)", f"self.load().get({k},default)") and \
        R.get("default") == f"DEFAULTS[{k}]" and R.get("data", "self.load()")\
        == "self.load()"
    if not ok and len(rets) == 1 and isinstance(rets[0].value, ast.Name):
        # the same through `if key in data: val = data[key] else: val =
        # default` / a conditional expression (all reaching values judged)
        from ..symres import Resolver as _Rg
        Rg = _Rg(gi)
        vals = Rg.reaching_values(rets[0].value)
        if vals:
            txt = set()
            for v_ in vals:
                if isinstance(v_, ast.IfExp) and Rg.text(v_.test).replace(
                        " ", "") == f"{k}inself.load()":
                    txt |= {Rg.text(v_.body), Rg.text(v_.orelse)}
                else:
                    txt.add(Rg.text(v_))
            txt = {t.replace(" ", "") for t in txt}
            ok = txt in ({f"self.load()[{k}]", f"DEFAULTS[{k}]"},
                         {f"self.load().get({k},DEFAULTS[{k}])"})
            if ok and len(txt) == 2:
                # the stored value only under `key in data`
                for st in walk_no_nested(gi, False):
                    if isinstance(st, ast.Assign) and Rg.text(
                            st.value).replace(" ", "") == \
                            f"self.load()[{k}]" and isinstance(
                                st.targets[0], ast.Name) and \
                            st.targets[0].id == rets[0].value.id:
                        ok = any(a.pol and Rg.text(a.node).replace(
                            " ", "") == f"{k}inself.load()"
                            for a in conditions_at(st))
    ctx.check(ok, gi, "__getitem__ returns the stored value or the default",
              f"Profile.__getitem__ does not return the loaded value with "
              f"the default as fallback: {R}")
    # get_fit_params: overrides exactly value / vary
    gf = meths["get_fit_params"]
    stores = [n for n in walk_no_nested(gf, False)
              if isinstance(n, ast.Assign) and isinstance(
                  n.targets[0], ast.Attribute)]
    attrs = sorted(s.targets[0].attr for s in stores)
    ctx.check(attrs == ["value", "vary"], gf,
              f"get_fit_params overrides {attrs}",
              f"get_fit_params overrides {attrs} instead of exactly value "
              "and vary")
    keyfmt = {}
    for st in walk_no_nested(gf, False):
        if isinstance(st, ast.Assign) and str_template(st.value) and \
                not isinstance(st.value, ast.Constant):
            keyfmt[norm(st.targets[0])] = str_template(st.value)
    for s in stores:
        attr = s.targets[0].attr
        v = s.value
        kname = norm(v.slice) if isinstance(v, ast.Subscript) else None
        fmt = keyfmt.get(kname)
        if fmt is None and isinstance(v, ast.Subscript):
            fmt = str_template(v.slice)
        ctx.check(fmt == f"fit param {{}} {attr}", s,
                  f".{attr} <- cdict['{fmt}']",
                  f"parameter .{attr} is overridden from '{fmt}'")
        conds = conditions_at(s)
        ctx.check(any(a.pol and a.text.endswith(" in cdict") and (
            a.text == f"{kname} in cdict" or str_template(
                a.node.left) == fmt) for a in conds), s,
                  f".{attr} overridden only when stored",
                  f".{attr} override is not guarded by the key's presence")
    ok = any(call_name(c) == "model.get_init_parms" for c in calls_in(gf))
    ctx.check(ok, gf, "defaults of the selected model",
              "get_fit_params does not start from the model defaults")
    sf = meths["set_fit_params"]
    w = {}
    for st in walk_no_nested(sf, False):
        if isinstance(st, ast.Assign) and isinstance(
                st.targets[0], ast.Subscript) and str_template(
                    st.targets[0].slice) and not isinstance(
                        st.targets[0].slice, ast.Constant):
            fmt = str_template(st.targets[0].slice)
            w[fmt] = norm(st.value)
            lp_ = st
            while lp_ is not None and not isinstance(lp_, ast.For):
                lp_ = getattr(lp_, "_parent", None)
            cs_ = conditions_at(st, stop=lp_) if lp_ is not None else \
                conditions_at(st)
            ctx.check(not cs_, st, f"'{fmt}' written for every parameter",
                      f"set_fit_params writes '{fmt}' only when "
                      + " and ".join(repr(a) for a in cs_)[:80]
                      + ": an entry stored earlier is not overwritten when "
                      "the new value fails that test (e.g. equals the model "
                      "default), so the profile keeps the old value and "
                      "get_fit_params does not return what was written")
    ctx.check(w == {"fit param {} value": "params[p].value",
                    "fit param {} vary": "params[p].vary"}, sf,
              "set_fit_params writes value and vary under their keys",
              f"set_fit_params writes {w}")


def r5_statistics(ctx):
    rm = ctx.repo.mod("cli.rating")
    fp_ = rm.func("fit_perform")
    loops = [n for n in walk_no_nested(fp_, False) if isinstance(n, ast.For)
             and norm(n.iter) == "grp"]
    # fit_data is memoised on its arguments and reads the profile *file*:
    # the batch fit must hand it the curve object of this run (a fresh
    # object never hits the cache), not a (path, index) key that an earlier
    # run with another profile content has already answered
    fd_ = rm.funcs.get("fit_data")
    memo_ = fd_ is not None and any(
        "lru_cache" in norm(d) or norm(d).split("(")[0].endswith("cache")
        for d in fd_.decorator_list)
    if memo_:
        fresh_ = {norm(lp.target) for lp in loops}
        for c in calls_in(fp_):
            if call_name(c) != "fit_data":
                continue
            a0 = c.args[0] if c.args else kwarg(c, "path")
            ctx.check(a0 is not None and norm(a0) in fresh_, c,
                      "the batch fit hands fit_data the curve object of "
                      "this run",
                      "fit_perform calls the memoised fit_data with "
                      f"`{norm(a0) if a0 is not None else '?'}` instead of "
                      "the curve object of this run: the cache is keyed by "
                      "(path, index, profile path), so a second batch run "
                      "after the profile was edited writes the moduli and "
                      "ratings of the old profile")
    ctx.floor("per-curve loop in fit_perform", len(loops), 1)
    lp = loops[0]
    writes = [c for s in lp.body for c in ast.walk(s)
              if isinstance(c, ast.Call) and call_name(c) == "ts.write"]
    direct = [c for c in writes if all(not (isinstance(p, (ast.For, ast.While))
                                            and p is not lp)
                                       for p in _parents(c, lp))]
    ctx.check(len(writes) == 1 and len(direct) == 1, lp,
              f"{len(writes)} statistics row(s) written per curve",
              f"fit_perform writes {len(writes)} statistics rows per curve "
              "instead of exactly one")
    # the columns
    # the column table is what the row comprehension iterates
    row0 = None
    for s_ in lp.body:
        if isinstance(s_, ast.Assign) and isinstance(
                s_.value, ast.ListComp) and len(s_.value.generators) == 1 \
                and any(w_ for w_ in writes
                        if norm(s_.targets[0]) in norm(w_)):
            row0 = s_
    if row0 is None and len(writes) == 1 and writes[0].args:
        # the row text is built in place: follow the written expression
        # through the loop body's single assignments to the comprehension
        local = {}
        for s_ in lp.body:
            if isinstance(s_, ast.Assign) and len(s_.targets) == 1 and \
                    isinstance(s_.targets[0], ast.Name):
                local.setdefault(s_.targets[0].id, []).append(s_)
        todo, seen_ = [writes[0].args[0]], set()
        while todo and row0 is None:
            e_ = todo.pop()
            for n_ in ast.walk(e_):
                if isinstance(n_, ast.ListComp) and len(
                        n_.generators) == 1 and not isinstance(
                        e_, ast.ListComp):
                    row0 = ast.copy_location(ast.Assign(
                        targets=[ast.Name(id="<row>", ctx=ast.Store())],
                        value=n_), n_)
                    break
                if isinstance(n_, ast.Name) and n_.id in local and len(
                        local[n_.id]) == 1 and n_.id not in seen_:
                    seen_.add(n_.id)
                    if isinstance(local[n_.id][0].value, ast.ListComp):
                        row0 = local[n_.id][0]
                        break
                    todo.append(local[n_.id][0].value)
    if row0 is None and len(writes) == 1:
        # the column table written out: row = [str(<column 1 of the
        # curve>), str(<column 2>), ...] and a header of as many names
        from ..symres import Resolver as _R5
        R5 = _R5(fp_, keep={norm(lp.target)})
        rowlit = None
        for s_ in lp.body:
            if isinstance(s_, ast.Assign) and isinstance(
                    s_.value, ast.List) and s_.value.elts and all(
                    isinstance(e, ast.Call) and call_name(e) == "str"
                    and len(e.args) == 1 for e in s_.value.elts) and \
                    norm(s_.targets[0]) in norm(writes[0]):
                rowlit = s_
        hdr = None
        for st in walk_no_nested(fp_, False):
            if isinstance(st, ast.Assign) and isinstance(
                    st.value, ast.Call) and isinstance(
                    st.value.func, ast.Attribute) and \
                    st.value.func.attr == "join" and st.value.args and \
                    isinstance(st.value.args[0], (ast.List, ast.Tuple)) and \
                    not any(st is x for x in ast.walk(lp)):
                hdr = [const_str(R5.resolve(e))
                       for e in st.value.args[0].elts]
        if rowlit is not None and hdr is not None:
            cur = norm(lp.target)
            ctx.check(hdr == ["path", "enum", "E", "rating"], rowlit,
                      f"statistics columns {hdr}",
                      f"statistics columns are {hdr}")
            ctx.check(len(hdr) == len(rowlit.value.elts), rowlit,
                      "one value per header column",
                      "the statistics row and the header have a different "
                      "number of columns")
            want_ = {"path": f"{cur}.path", "enum": f"{cur}.enum",
                     "E": f"{cur}.fit_properties['params_fitted']['E'].value"}
            for nm_, e in zip(hdr, rowlit.value.elts):
                v_ = R5.resolve(e.args[0])
                if isinstance(v_, ast.Call) and isinstance(
                        v_.func, ast.Lambda) and len(v_.args) == 1 and len(
                        v_.func.args.args) == 1:
                    v_ = _rename(v_.func.body, v_.func.args.args[0].arg,
                                 norm(v_.args[0]))
                t_ = norm(v_)
                if nm_ in want_:
                    ctx.check(t_ == want_[nm_], e, f"column {nm_} = {t_}",
                              f"statistics column '{nm_}' is computed as "
                              f"{t_}")
                elif nm_ == "rating":
                    ok_ = isinstance(v_, ast.Call) and call_name(
                        v_) == "round"
                    nd_ = kwarg(v_, "ndigits") if ok_ else None
                    if ok_ and nd_ is None and len(v_.args) > 1:
                        nd_ = v_.args[1]
                    ctx.check(ok_ and nd_ is not None and literal(nd_) == 1,
                              e, "rating rounded to one decimal",
                              "the rating is not rounded to one decimal")
                    inner_ = v_.args[0] if ok_ and v_.args else None
                    kws_ = {k.arg: norm(k.value) for k in inner_.keywords} \
                        if isinstance(inner_, ast.Call) else {}
                    ctx.check(kws_ == {
                        "training_set": "pf['rating training set']",
                        "regressor": "pf['rating regressor']"} and
                        isinstance(inner_, ast.Call) and norm(
                            inner_.func) == f"{cur}.rate_quality", e,
                        "rating uses the profile's regressor and training "
                        "set", f"rating computed with {kws_}")
            _r5_file_and_fit(ctx, fp_, lp, writes)
            return
    if row0 is None:
        raise Undecided("fit_perform: the statistics row is not a list "
                        "comprehension over the column table")
    tabname = norm(row0.value.generators[0].iter)
    tabiter = tabname
    tabkind = "pairs"
    it0 = row0.value.generators[0].iter
    if isinstance(it0, ast.Call) and isinstance(it0.func, ast.Attribute) \
            and it0.func.attr in ("values", "items") and not it0.args:
        tabname = norm(it0.func.value)
        tabkind = it0.func.attr
    rowvar = norm(row0.targets[0])
    dl = None
    for st in walk_no_nested(fp_, False):
        if isinstance(st, ast.Assign) and norm(st.targets[0]) == tabname:
            dl = st.value
    if tabkind != "pairs":
        # an insertion-ordered dict literal {name: function}
        if not isinstance(dl, ast.Dict) or any(k is None for k in dl.keys):
            raise Undecided(f"{tabname} is not a literal table of (name, "
                            "function) pairs")
        dl = ast.copy_location(ast.List(elts=[
            ast.copy_location(ast.Tuple(elts=[k, v], ctx=ast.Load()), k)
            for k, v in zip(dl.keys, dl.values)], ctx=ast.Load()), dl)
    if not isinstance(dl, (ast.List, ast.Tuple)) or not all(
            isinstance(e, (ast.List, ast.Tuple)) and len(e.elts) == 2
            for e in dl.elts):
        raise Undecided(f"{tabname} is not a literal table of (name, "
                        "function) pairs")
    cols = [const_str(e.elts[0]) for e in dl.elts]
    ctx.check(cols == ["path", "enum", "E", "rating"], dl,
              f"statistics columns {cols}",
              f"statistics columns are {cols}")
    want = {"path": "x.path", "enum": "x.enum",
            "E": "x.fit_properties['params_fitted']['E'].value"}
    for e in dl.elts:
        name = const_str(e.elts[0])
        lam = e.elts[1]
        if isinstance(lam, ast.Name) and (
                f"fit_perform.{lam.id}" in rm.funcs or lam.id in rm.funcs):
            # a nested def (or a module-level function): judge its
            # returned expression
            ld_ = rm.funcs.get(f"fit_perform.{lam.id}") or rm.funcs[lam.id]
            rets_ = [r for r in walk_no_nested(ld_, False)
                     if isinstance(r, ast.Return)]
            if len(rets_) != 1 or len(ld_.args.args) != 1:
                raise Undecided(f"column function {lam.id} has several "
                                "returns")
            lam = ast.Lambda(args=ld_.args,
                             body=Resolver(ld_).resolve(rets_[0].value))
        body = norm(lam.body) if isinstance(lam, ast.Lambda) else norm(lam)
        if isinstance(lam, ast.Lambda) and lam.args.args and \
                lam.args.args[0].arg != "x":
            a0 = lam.args.args[0].arg
            body = norm(_rename(lam.body, a0, "x"))
        if name in want:
            ctx.check(body == want[name], e, f"column {name} = {body}",
                      f"statistics column '{name}' is computed as {body}")
        elif name == "rating":
            ok = isinstance(lam, ast.Lambda) and isinstance(
                lam.body, ast.Call) and call_name(lam.body) == "round"
            nd = kwarg(lam.body, "ndigits") if ok else None
            if ok and nd is None and len(lam.body.args) > 1:
                nd = lam.body.args[1]
            ctx.check(ok and nd is not None and literal(nd) == 1, e,
                      "rating rounded to one decimal",
                      "the rating is not rounded to one decimal")
            inner = lam.body.args[0] if ok and lam.body.args else None
            kws = {k.arg: norm(k.value) for k in inner.keywords} if isinstance(
                inner, ast.Call) else {}
            ctx.check(kws == {"training_set": "pf['rating training set']",
                              "regressor": "pf['rating regressor']"}, e,
                      "rating uses the profile's regressor and training set",
                      f"rating computed with {kws}")
    # the row is built from the current curve
    w = writes[0] if writes else None
    if w is not None:
        row = row0.value if rowvar == "<row>" else None
        for s in lp.body:
            if isinstance(s, ast.Assign) and norm(s.targets[0]) == rowvar:
                row = s.value
        ok = False
        if isinstance(row, ast.ListComp) and len(row.generators) == 1 and \
                norm(row.generators[0].iter) == tabiter and \
                not row.generators[0].ifs and isinstance(row.elt, ast.Call) \
                and call_name(row.elt) == "str" and isinstance(
                    row.elt.args[0], ast.Call):
            g = row.generators[0]
            inner = row.elt.args[0]
            fexpr = norm(inner.func)
            cur = norm(lp.target)
            if isinstance(g.target, ast.Name):
                ok = fexpr == (g.target.id if tabkind == "values"
                               else f"{g.target.id}[1]")
            elif tabkind == "values":
                ok = False
            elif isinstance(g.target, ast.Tuple) and len(g.target.elts) == 2:
                ok = fexpr == norm(g.target.elts[1])
            ok = ok and [norm(a) for a in inner.args] == [cur]
        ctx.check(ok, lp, "row = every column function applied to the curve",
                  "the statistics row is not built from all columns of the "
                  "current curve")
    _r5_file_and_fit(ctx, fp_, lp, writes)


def _r5_file_and_fit(ctx, fp_, lp, writes):
    # the statistics file starts empty: it is opened for writing
    # (truncated) before rows are appended, and the header is written once
    # outside the per-curve loops
    opens = []
    for c in calls_in(fp_):
        if isinstance(c.func, ast.Attribute) and c.func.attr == "open" and \
                writes and any(isinstance(w_.func, ast.Attribute) for w_ in
                               writes):
            md = kwarg(c, "mode")
            if md is None and c.args:
                md = c.args[0]
            mode = const_str(md) if md is not None else "r"
            opens.append((c, norm(c.func.value), mode))
        elif isinstance(c.func, ast.Attribute) and c.func.attr in (
                "write_text", "write_bytes"):
            # Path.write_text creates or truncates the file
            opens.append((c, norm(c.func.value), "w"))
    tsv = [o for o in opens if any(
        isinstance(p_, ast.withitem) and norm(p_.optional_vars or p_) == "ts"
        for p_ in _parents(o[0], fp_))] if opens else []
    tsv_path = tsv[0][1] if tsv else None
    same = [o for o in opens if o[1] == tsv_path]
    if tsv_path is None:
        raise Undecided("fit_perform: the statistics file handle `ts` is not "
                        "opened in a with statement")
    trunc = [o for o in same if o[2] and o[2].startswith(("w", "x"))]
    appends = [o for o in same if o[2] and o[2].startswith("a")]
    first = min(same, key=lambda o: o[0].lineno)
    ctx.check(bool(trunc) and first in trunc, first[0],
              f"{tsv_path} opened with mode '{first[2]}' first",
              f"fit_perform never truncates {tsv_path}: it is only opened "
              f"with mode {[o[2] for o in same]}, so a second batch run "
              "into the same results directory appends a second header and "
              "a second set of rows - the file no longer has one row per "
              "curve")
    del appends
    # fit before statistics
    fits = [c for s in lp.body for c in ast.walk(s)
            if isinstance(c, ast.Call) and call_name(c) == "fit_data"]
    ok = bool(fits) and norm(fits[0].args[0]) == norm(lp.target)
    ctx.check(ok, lp, "each curve is fitted with the profile before its row",
              "the curve is not fitted before its statistics are written")


def _rename(expr, old, new):
    from ..astutil import clone
    e = clone(expr)
    for n in ast.walk(e):
        if isinstance(n, ast.Name) and n.id == old:
            n.id = new
    return e


def _parents(node, stop):
    out = []
    p = getattr(node, "_parent", None)
    while p is not None and p is not stop:
        out.append(p)
        p = getattr(p, "_parent", None)
    return out


# ---------------------------------------------------------------------------
# R6: legacy loader keeps the text of every entry, except the two documented
# words of `segment`

LEGACY_WORDS = {"approach": "0", "retract": "1"}


class _Sym:
    """a text that is none of the constants it is compared with"""
    def __init__(self, name):
        self.name = name

    def __repr__(self):
        return f"<any other {self.name}>"


def _fold(e, env):
    """Evaluate `e` over constants and the symbolic `other` texts; raises
    Undecided for anything else."""
    if isinstance(e, ast.Constant):
        return e.value
    if isinstance(e, ast.Name):
        if e.id in env:
            return env[e.id]
        raise Undecided(f"legacy loader: value of `{e.id}` unknown")
    if isinstance(e, ast.Compare) and len(e.ops) == 1:
        a, b = _fold(e.left, env), _fold(e.comparators[0], env)
        op = e.ops[0]
        if isinstance(op, (ast.Eq, ast.NotEq)):
            if isinstance(a, _Sym) or isinstance(b, _Sym):
                sym, other = (a, b) if isinstance(a, _Sym) else (b, a)
                if isinstance(other, _Sym):
                    if other is sym:
                        r = True
                    else:
                        raise Undecided("legacy loader: two free texts "
                                        "compared")
                elif other in sym.excluded:
                    r = False
                else:
                    raise Undecided(f"legacy loader: entry compared with "
                                    f"{other!r}")
            else:
                r = a == b
            return r if isinstance(op, ast.Eq) else not r
        if isinstance(op, (ast.In, ast.NotIn)) and isinstance(
                b, (tuple, list, dict)):
            if isinstance(a, _Sym):
                if all(x in a.excluded for x in b):
                    r = False
                else:
                    raise Undecided("legacy loader: membership of a free "
                                    "text")
            else:
                r = a in b
            return r if isinstance(op, ast.In) else not r
        raise Undecided(f"legacy loader: comparison {norm(e)}")
    if isinstance(e, ast.BoolOp):
        vals = [_fold(v, env) for v in e.values]
        if any(isinstance(v, _Sym) for v in vals):
            raise Undecided("legacy loader: truthiness of a free text")
        out = vals[0]
        for v in vals[1:]:
            out = (out and v) if isinstance(e.op, ast.And) else (out or v)
        return out
    if isinstance(e, ast.UnaryOp) and isinstance(e.op, ast.Not):
        v = _fold(e.operand, env)
        if isinstance(v, _Sym):
            raise Undecided("legacy loader: truthiness of a free text")
        return not v
    if isinstance(e, ast.IfExp):
        t = _fold(e.test, env)
        if isinstance(t, _Sym):
            raise Undecided("legacy loader: truthiness of a free text")
        return _fold(e.body if t else e.orelse, env)
    if isinstance(e, (ast.Tuple, ast.List)):
        return tuple(_fold(x, env) for x in e.elts)
    if isinstance(e, ast.Dict) and all(k is not None for k in e.keys):
        return {_fold(k, env): _fold(v, env)
                for k, v in zip(e.keys, e.values)}
    if isinstance(e, ast.Subscript):
        base, key = _fold(e.value, env), _fold(e.slice, env)
        if isinstance(base, dict) and not isinstance(key, _Sym) \
                and key in base:
            return base[key]
        raise Undecided(f"legacy loader: {norm(e)}")
    if isinstance(e, ast.Call) and not e.keywords:
        cn = call_name(e)
        args = [_fold(a, env) for a in e.args]
        if cn in ("str", "int", "bool") and len(args) == 1 and not \
                isinstance(args[0], _Sym):
            try:
                return {"str": str, "int": int, "bool": bool}[cn](args[0])
            except (TypeError, ValueError):
                raise Undecided(f"legacy loader: {norm(e)}")
        if isinstance(e.func, ast.Attribute) and e.func.attr == "get" \
                and len(args) in (1, 2):
            base = _fold(e.func.value, env)
            if isinstance(base, dict):
                k = args[0]
                dflt = args[1] if len(args) == 2 else None
                if isinstance(k, _Sym):
                    if all(x in k.excluded for x in base):
                        return dflt
                    raise Undecided("legacy loader: lookup of a free text")
                return base.get(k, dflt)
        if isinstance(e.func, ast.Attribute) and e.func.attr in (
                "strip", "lower") and not args:
            base = _fold(e.func.value, env)
            if isinstance(base, _Sym) and e.func.attr == "strip":
                return base
            if isinstance(base, str):
                return getattr(base, e.func.attr)()
    raise Undecided(f"legacy loader: cannot evaluate {norm(e)}")


def _run(stmts, env, tracked):
    """Interpret a statement list over `env`; statements that neither read
    through a decidable test nor write a tracked name are skipped."""
    for st in stmts:
        if isinstance(st, ast.Assign) and len(st.targets) == 1 and \
                isinstance(st.targets[0], ast.Name):
            nm = st.targets[0].id
            try:
                env[nm] = _fold(st.value, env)
            except Undecided:
                if nm in tracked:
                    raise
                env.pop(nm, None)
        elif isinstance(st, ast.If):
            writes = {t for b in (st.body, st.orelse) for x in b
                      for n in ast.walk(x)
                      for t in ([n.id] if isinstance(n, ast.Name) and
                                isinstance(n.ctx, ast.Store) else [])}
            try:
                t = _fold(st.test, env)
                if isinstance(t, _Sym):
                    raise Undecided("legacy loader: truthiness of a free "
                                    "text")
            except Undecided:
                if writes & set(tracked):
                    raise
                for w in writes:
                    env.pop(w, None)
                continue
            _run(st.body if t else st.orelse, env, tracked)
        elif isinstance(st, (ast.Expr, ast.Pass)):
            continue
        else:
            for n in ast.walk(st):
                if isinstance(n, ast.Name) and isinstance(n.ctx, ast.Store) \
                        and n.id in tracked:
                    raise Undecided(f"legacy loader: `{n.id}` written by "
                                    f"{norm(st)[:60]}")
    return env


def r6_legacy_words(ctx):
    m, meths = _profile_cls(ctx)
    if "load_legacy" not in meths:
        raise AnchorError("Profile.load_legacy not found")
    f = meths["load_legacy"]
    ctx.analysed(f)
    loop = None
    for n in walk_no_nested(f, False):
        if isinstance(n, ast.For) and any(
                isinstance(c.func, ast.Attribute) and c.func.attr == "split"
                and c.args and const_str(c.args[0]) == "="
                for c in calls_in(n)):
            loop = n
            break
    if loop is None:
        raise AnchorError("load_legacy: no loop splitting lines at '='")
    store = None
    for i, st in enumerate(loop.body):
        if isinstance(st, ast.Assign) and isinstance(
                st.targets[0], ast.Subscript) and isinstance(
                st.value, ast.Name) and isinstance(st.targets[0].slice,
                                                   ast.Name):
            store = (i, st)
    if store is None:
        raise Undecided("load_legacy: the raw entry is not stored by a "
                        "top-level `d[key] = text` in the line loop")
    si, sst = store
    K, V = sst.targets[0].slice.id, sst.value.id
    # the interpretation starts after the last statement that takes the
    # texts from the line (anything that cannot be folded from K and V)
    start = 0
    for i, st in enumerate(loop.body[:si]):
        if isinstance(st, ast.Assign):
            tn = {n.id for t in st.targets for n in ast.walk(t)
                  if isinstance(n, ast.Name)}
            if tn & {K, V}:
                srcs = {n.id for n in ast.walk(st.value)
                        if isinstance(n, ast.Name)}
                plain = isinstance(st.value, ast.Call) and isinstance(
                    st.value.func, ast.Attribute) and st.value.func.attr \
                    == "strip" and srcs <= {K, V}
                if not plain and not (srcs <= {K, V} and srcs):
                    start = i + 1
    body = loop.body[start:si]
    excl = set(LEGACY_WORDS) | {"segment"}
    cases = []
    for word, want in sorted(LEGACY_WORDS.items()):
        cases.append(("segment", word, want,
                      f"segment = {word} -> {want!r}"))
    other_v = _Sym("value")
    other_v.excluded = excl
    other_k = _Sym("key")
    other_k.excluded = excl
    cases.append(("segment", other_v, other_v,
                  "segment = <number> kept as written"))
    cases.append((other_k, other_v, other_v, "other keys kept as written"))
    for word in sorted(LEGACY_WORDS):
        cases.append((other_k, word, word,
                      f"<other key> = {word} kept as written"))
    consts = {}
    for nm, vals in m.assigns.items():
        if len(vals) == 1 and isinstance(vals[0], (ast.Dict, ast.Tuple,
                                                   ast.List, ast.Constant)):
            try:
                consts[nm] = literal(vals[0], opaque=False)
            except Undecided:
                pass
    for k, v, want, what in cases:
        env = _run(body, dict(consts, **{K: k, V: v}), (K, V))
        got_k, got_v = env.get(K), env.get(V)
        ok = (got_v is want if isinstance(want, _Sym) else got_v == want) \
            and (got_k is k if isinstance(k, _Sym) else got_k == k)
        ctx.check(ok, sst, what,
                  f"legacy profile entry `{k!r} = {v!r}` is stored as "
                  f"`{got_k!r}: {got_v!r}` (expected {want!r}): the legacy "
                  f"file and its JSON form no longer give the same "
                  f"settings")


def _str_pred(e, key, tables):
    """value of a test over the string `key` (None = cannot tell)"""
    if isinstance(e, ast.BoolOp):
        vals = [_str_pred(v, key, tables) for v in e.values]
        if isinstance(e.op, ast.And):
            if any(v is False for v in vals):
                return False
            return True if all(v is True for v in vals) else None
        if any(v is True for v in vals):
            return True
        return False if all(v is False for v in vals) else None
    if isinstance(e, ast.UnaryOp) and isinstance(e.op, ast.Not):
        v = _str_pred(e.operand, key, tables)
        return None if v is None else (not v)
    if isinstance(e, ast.Call) and isinstance(e.func, ast.Attribute) and \
            isinstance(e.func.value, ast.Name) and e.func.value.id == "key" \
            and e.func.attr in ("startswith", "endswith") and e.args:
        try:
            a = literal(e.args[0])
        except Exception:
            return None
        if isinstance(a, (str, tuple)):
            return getattr(key, e.func.attr)(a)
        return None
    if isinstance(e, ast.Compare) and len(e.ops) == 1 and isinstance(
            e.left, ast.Name) and e.left.id == "key":
        op, r = e.ops[0], e.comparators[0]
        if isinstance(op, (ast.In, ast.NotIn)):
            coll = None
            if isinstance(r, ast.Name) and r.id in tables:
                coll = tables[r.id]
            else:
                try:
                    coll = literal(r)
                except Exception:
                    coll = None
            if coll is None:
                return None
            return (key in coll) == isinstance(op, ast.In)
        if isinstance(op, (ast.Eq, ast.NotEq)):
            c = const_str(r)
            if c is None:
                return None
            return (key == c) == isinstance(op, ast.Eq)
    return None


def r7_own_keys_accepted(ctx):
    """Every key the package itself writes to a profile (the interactive
    setup, set_fit_params, the defaults) passes Profile.__setitem__ - a
    refused key aborts the setup half-way and the answers given so far or
    afterwards are not the stored values."""
    pm = ctx.repo.mod("cli.profile")
    si = pm.func("Profile.__setitem__")
    ctx.analysed(si)
    try:
        dflt = literal(pm.assign("DEFAULTS"))
    except Exception:
        dflt = None
    if not isinstance(dflt, dict):
        raise Undecided("cli.profile.DEFAULTS is not a literal table")
    tables = {"DEFAULTS": set(dflt)}
    raises = [n for n in walk_no_nested(si, False) if isinstance(n, ast.Raise)]
    keys = {}
    for k in dflt:
        keys.setdefault(k, pm.assign("DEFAULTS"))
    from ..astutil import str_template
    for m, q, f in ctx.repo.all_funcs():
        if not m.name.startswith("cli."):
            continue
        for st in walk_no_nested(f, False):
            if not isinstance(st, ast.Assign):
                continue
            for t in st.targets:
                if isinstance(t, ast.Subscript) and norm(t.value) in (
                        "pf", "profile", "self", "prof") and (
                        m.name == "cli.profile"):
                    if norm(t.value) == "self" and not q.startswith(
                            "Profile."):
                        continue
                    k = const_str(t.slice)
                    if k is None:
                        tm = str_template(t.slice)
                        if tm is not None:
                            k = tm.replace("{}", "E")
                    if k is None:
                        if q.startswith("Profile.__getitem__"):
                            continue     # re-stores the key it was asked for
                        raise Undecided(f"{m.name}.{q}: profile key "
                                        f"{norm(t.slice)[:40]} is computed")
                    keys.setdefault(k, st)
    ctx.floor("profile keys written by the package", len(keys), 10)
    for k, site in sorted(keys.items()):
        refused = None
        for r in raises:
            vals = []
            for a in conditions_at(r):
                v = _str_pred(a.node, k, tables)
                vals.append(None if v is None else (v == a.pol))
            if any(v is False for v in vals):
                continue
            if any(v is None for v in vals):
                raise Undecided(f"Profile.__setitem__: cannot evaluate the "
                                f"condition of `{norm(r)[:40]}` for key "
                                f"'{k}'")
            refused = r
        ctx.check(refused is None, site, f"key '{k}' accepted by "
                  "Profile.__setitem__",
                  f"Profile.__setitem__ refuses the key '{k}' "
                  f"(line {getattr(refused, 'lineno', '?')}) although the "
                  "package itself writes it: the interactive setup aborts "
                  "at that point, the profile is left half-updated and "
                  "later answers are not stored")


RULES = [
    ("C19-R1", "producer vocabularies are subsets of consumer vocabularies",
     r1_vocabularies),
    ("C19-R2", "each answer is guarded by itself, stored, and mapped to the "
     "matching value", r2_answers),
    ("C19-R3", "stored preprocessing passes the order check",
     r3_preprocessing_order),
    ("C19-R4", "write-through persistence without per-object cache",
     r4_persistence),
    ("C19-R5", "one statistics row per curve with the documented columns",
     r5_statistics),
    ("C19-R6", "legacy loader maps exactly approach/retract of `segment` and "
     "keeps every other entry as written", r6_legacy_words),
    ("C19-R7", "every key the package writes to a profile is accepted by "
     "Profile.__setitem__", r7_own_keys_accepted),
]
