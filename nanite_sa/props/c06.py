"""C06 — preprocessing is a pure, repeatable function of raw data, steps and
options."""
from __future__ import annotations

import ast

from .. import effects, facts, fitrules
from ..astutil import (call_name, calls_in, const_str, dotted, kwarg, norm,
                       walk_no_nested)
from ..callgraph import CallGraph
from ..cfg import CFG
from ..dataflow import reaching_defs, solve_forward
from ..guards import conditions_at
from ..loader import AnchorError, Undecided
from ..symres import Resolver

EXPLANATION = (
    "Static necessary conditions for purity/repeatability of preprocessing, "
    "decided for every curve and every request history at once: (R1) "
    "preproc.apply calls apret.reset_data() on every normally completing "
    "path and before any step runs; (R2) nothing in nanite names the raw "
    "column store or re-enables writing on arrays; (R3) typestate over "
    "apply_preprocessing: whenever preproc.apply fails, neither the rejected "
    "request nor the previous pipeline is remembered in fit_properties; (R4) "
    "the remembered steps/options are stored through a copy barrier (in "
    "place edits of caller objects cannot alter or hide a change); (R5) the "
    "pipeline's call graph reads no clock/RNG/environment, mutates no "
    "module-level table, and steps read only history-free attributes of the "
    "curve; (R6) the skip-if-unchanged test compares both remembered items "
    "with both requested items and the defaults come from the remembered "
    "pipeline.")
NOT_DECIDED = [
    "bit-identity of the float columns (numerical execution)",
    "that third-party routines (lmfit, scipy.ndimage) are deterministic",
]
ASSUMPTIONS = [
    "A1: afmformats AFMData.__getitem__ returns a copy of raw columns and "
    "the stored array for edited columns; A2: AFMData.__setitem__ and "
    "reset_data touch only the edited-column store (_data), never _raw_data",
]

MEMO_KEYS = ("preprocessing", "preprocessing_options")
# attributes of the curve object a preprocessing step may read: all are
# functions of the recorded data / metadata only (confirmed by reading
# afmformats.AFMData); anything else (fit_properties, preprocessing,
# _rating, ...) would make the result depend on the object's history
APRET_ATTRS = {
    "metadata": "recorded metadata",
    "columns_innate": "names of recorded columns",
    "appr": "approach segment view of the columns",
    "retr": "retract segment view of the columns",
    "reset_data": "drops edited columns",
    "columns": "names of current columns",
}


def r1_restart_from_raw(ctx):
    pre = ctx.repo.mod("preproc")
    fn = pre.func("apply")
    ctx.analysed(fn)
    cfg = CFG(fn)
    first = fn.args.args[0].arg
    resets = [n for n in cfg.nodes if any(
        call_name(c) == f"{first}.reset_data" for c in fitrules.node_calls(n))]
    if not resets:
        ctx.fail(fn, f"{first}.reset_data()",
                 "preproc.apply no longer resets the curve to its raw data: "
                 "the result depends on previously applied pipelines")
        return
    rid = {n.id for n in resets}
    # every normal completion passes the reset
    r = cfg.reach([cfg.entry], avoid=rid, skip_labels=("exc",))
    if cfg.exit in r:
        path = cfg.path(cfg.entry, cfg.exit, avoid=rid, skip_labels=("exc",))
        ctx.fail(resets[0].ast, f"{first}.reset_data() on every path",
                 "preproc.apply can return normally without resetting the "
                 "curve to raw data (edited columns of an earlier pipeline "
                 "survive)", path=cfg.describe_path(path) if path else None)
    else:
        ctx.ok(resets[0].ast, f"{first}.reset_data() on every normal path")
    # the reset dominates every step invocation
    stepcalls = []
    rd = reaching_defs(cfg)
    for n in cfg.nodes:
        for c in fitrules.node_calls(n):
            if isinstance(c.func, ast.Name) and c.args and \
                    norm(c.args[0]) == first:
                defs = [cfg.nodes[d] for (v, d) in rd.get(n.id, ())
                        if v == c.func.id]
                Rs = Resolver(fn)
                if any(d.kind == "stmt" and isinstance(d.ast, ast.Assign)
                       and isinstance(Rs.resolve(d.ast.value), ast.Call)
                       and call_name(Rs.resolve(d.ast.value)) == "get_func"
                       for d in defs):
                    stepcalls.append((n, c))
    ctx.floor("step invocations in preproc.apply", len(stepcalls), 1)
    for n, c in stepcalls:
        good = any(cfg.dominates(r_.id, n.id) for r_ in resets)
        ctx.check(good, c, f"step call {norm(c)} after reset_data",
                  "a preprocessing step can run before the curve was reset "
                  "to raw data")
    # reset is not conditional on the request
    for r_ in resets:
        conds = [a for a in conditions_at(r_.ast)]
        ctx.check(not conds, r_.ast, "reset_data() unconditional",
                  "reset_data() is only executed when "
                  + " and ".join(repr(a) for a in conds))


def r2_raw_untouched(ctx):
    n_mod = 0
    bad = 0
    for m in ctx.repo.modules.values():
        n_mod += 1
        for n in ast.walk(m.tree):
            if isinstance(n, ast.Attribute) and n.attr in ("_raw_data",):
                bad += 1
                ctx.fail(n, f"access {norm(n)}",
                         "nanite reaches into the recorded raw-data store of "
                         "afmformats; raw data are no longer protected by "
                         "AFMData's copy-on-read")
            if isinstance(n, ast.Call) and isinstance(n.func, ast.Attribute) \
                    and n.func.attr == "setflags":
                w = kwarg(n, "write")
                if w is not None and not (isinstance(w, ast.Constant)
                                          and w.value is False):
                    bad += 1
                    ctx.fail(n, f"{norm(n)}",
                             "write protection of an array is lifted")
            if isinstance(n, ast.Constant) and n.value == "_raw_data":
                bad += 1
                ctx.fail(n, "'_raw_data' string",
                         "raw-data store addressed by name")
    if not bad:
        ctx.ok((ctx.repo.mod("preproc").relpath, 1, "<package>"),
               f"no access to the raw column store in {n_mod} modules")
    # steps write columns only through item assignment on the curve or its
    # segment views
    pre = ctx.repo.mod("preproc")
    steps = facts.preprocessing_steps(ctx.repo)
    ctx.floor("preprocessing steps", len(steps), 6)
    for f, kws, _d in steps:
        ctx.analysed(f)
        ap = f.args.args[0].arg
        for n in walk_no_nested(f, False):
            if isinstance(n, ast.Attribute) and isinstance(
                    n.ctx, ast.Store) and effects.base_name(n) == ap:
                ctx.fail(n, f"attribute store {norm(n)}",
                         f"step {kws.get('identifier')} assigns an attribute "
                         f"of the curve object instead of a column")
        ctx.ok(f, f"step {kws.get('identifier')} writes columns only via "
               "item assignment")


def _memo_effect(node, al, infp=False):
    """(key, 'NEW'|'NONE'|'ABSENT') effects of a CFG node on memo keys."""
    out = []
    a = node.ast
    if node.kind != "stmt" or a is None:
        return out
    if isinstance(a, ast.Assign):
        for t in a.targets:
            if isinstance(t, ast.Subscript) and facts.is_fp_receiver(
                    t.value, al):
                k = const_str(t.slice)
                if k in MEMO_KEYS:
                    none = isinstance(a.value, ast.Constant) and \
                        a.value.value is None
                    out.append((k, "NONE" if none else "NEW"))
    if isinstance(a, ast.Delete):
        for t in a.targets:
            if isinstance(t, ast.Subscript) and facts.is_fp_receiver(
                    t.value, al) and const_str(t.slice) in MEMO_KEYS:
                out.append((const_str(t.slice), "ABSENT"))
    for c in fitrules.node_calls(node):
        if isinstance(c.func, ast.Attribute) and facts.is_fp_receiver(
                c.func.value, al):
            if c.func.attr == "pop" and c.args and \
                    const_str(c.args[0]) in MEMO_KEYS:
                out.append((const_str(c.args[0]), "ABSENT"))
            elif c.func.attr == "clear":
                for k in MEMO_KEYS:
                    out.append((k, "ABSENT"))
            elif c.func.attr in ("update", "restore"):
                for k in MEMO_KEYS:
                    out.append((k, "NEW"))
    return out


def r3_commit_after_success(ctx):
    ind = ctx.repo.mod("indent")
    fn = ind.func("Indentation.apply_preprocessing")
    ctx.analysed(fn)
    cfg = CFG(fn)
    al = facts.fp_aliases(fn)
    applies = [n for n in cfg.nodes if any(
        call_name(c) in ("preproc.apply", "apply")
        for c in fitrules.node_calls(n))]
    if not applies:
        raise AnchorError("apply_preprocessing no longer calls preproc.apply")
    ap_ids = {n.id for n in applies}
    init = frozenset((k, "OLD", False) for k in MEMO_KEYS)

    def transfer(node, state, label):
        if label == "exc":
            if node.id in ap_ids:
                return frozenset((k, s, True) for (k, s, f) in state)
            return state
        eff = _memo_effect(node, al)
        if not eff:
            return state
        d = dict(eff)
        return frozenset((k, d.get(k, s), f) for (k, s, f) in state)

    IN = solve_forward(cfg, init, transfer, lambda a, b: a | b)
    at_raise = IN.get(cfg.rexit, frozenset())
    at_exit = IN.get(cfg.exit, frozenset())
    for k in MEMO_KEYS:
        states = {s for (kk, s, f) in at_raise if kk == k and f}
        bad = states - {"ABSENT", "NONE"}
        if not states:
            # the exception of preproc.apply never leaves the function
            states_exit = {s for (kk, s, f) in at_exit if kk == k and f}
            bad = states_exit - {"ABSENT", "NONE"}
            states = states_exit
        if "NEW" in bad:
            ctx.fail(applies[0].ast, f"memo fit_properties['{k}'] when "
                     "preproc.apply fails",
                     f"fit_properties['{k}'] already holds the requested "
                     "pipeline when preproc.apply raises and no handler "
                     "removes it: a rejected request is remembered as "
                     "applied, repeating it is silently skipped")
        elif "OLD" in bad:
            ctx.fail(applies[0].ast, f"memo fit_properties['{k}'] when "
                     "preproc.apply fails",
                     f"fit_properties['{k}'] still names the previous "
                     "pipeline when preproc.apply raises although the data "
                     "were already reset: re-requesting the previous "
                     "pipeline is skipped on raw/half-processed columns")
        else:
            ctx.ok(applies[0].ast, f"memo fit_properties['{k}'] when "
                   "preproc.apply fails", f"states {sorted(states)}")
    # after success the memo names the request
    for k, want in zip(MEMO_KEYS, ("preprocessing", "options")):
        states = {s for (kk, s, f) in at_exit if kk == k and not f}
        # the skip path legitimately keeps OLD (it equals the request)
        after_apply = _states_after(cfg, IN, transfer, ap_ids, k)
        ctx.check(after_apply <= {"NEW"} and after_apply, applies[0].ast,
                  f"memo fit_properties['{k}'] after success",
                  f"after a successful preproc.apply fit_properties['{k}'] "
                  f"is {sorted(after_apply)} instead of the applied request: "
                  "the next identical request is applied again or a "
                  "different one is skipped")
        # stored value is the request itself
        for n in cfg.nodes:
            a = n.ast
            if n.kind == "stmt" and isinstance(a, ast.Assign):
                for t in a.targets:
                    if isinstance(t, ast.Subscript) and const_str(
                            t.slice) == k and facts.is_fp_receiver(
                                t.value, al):
                        v = a.value
                        if isinstance(v, ast.Call) and v.args:
                            v = v.args[0]
                        ctx.check(norm(v) == want, a,
                                  f"memo value {norm(a.value)}",
                                  f"fit_properties['{k}'] is set to "
                                  f"{norm(a.value)} instead of the applied "
                                  f"`{want}`")


def _states_after(cfg, IN, transfer, ap_ids, key):
    """memo states at normal exit restricted to paths through apply."""
    # propagate only from the normal out-edges of the apply nodes
    out = set()
    for a in ap_ids:
        if a not in IN:
            continue
        st = transfer(cfg.nodes[a], IN[a], None)
        seen = {}
        stack = [(t, st) for (t, lab) in cfg.succ[a] if lab != "exc"]
        while stack:
            n, s = stack.pop()
            if n in seen and s <= seen[n]:
                continue
            seen[n] = seen.get(n, frozenset()) | s
            if n == cfg.exit:
                continue
            for (t, lab) in cfg.succ[n]:
                if lab == "exc":
                    continue
                stack.append((t, transfer(cfg.nodes[n], seen[n], lab)))
        for (kk, s, f) in seen.get(cfg.exit, ()):
            if kk == key and not f:
                out.add(s)
    return out


def _copy_kind(value):
    if isinstance(value, ast.Call):
        cn = call_name(value)
        if cn in ("copy.deepcopy", "deepcopy"):
            return "deep"
        if cn in ("copy.copy", "list", "tuple", "dict", "sorted") or (
                isinstance(value.func, ast.Attribute)
                and value.func.attr == "copy"):
            return "shallow"
    if isinstance(value, (ast.ListComp, ast.List, ast.Tuple)):
        return "shallow"
    return None


def r4_memo_by_value(ctx):
    ind = ctx.repo.mod("indent")
    fn = ind.func("Indentation.apply_preprocessing")
    al = facts.fp_aliases(fn)
    by_value = fitrules.fp_stores_by_value(ctx.repo)
    need = {"preprocessing": "shallow", "options": "deep"}
    rank = {None: 0, "shallow": 1, "deep": 2}
    n_inst = 0
    for n in walk_no_nested(fn, False):
        if not isinstance(n, ast.Assign):
            continue
        for t in n.targets:
            tgt_fp = isinstance(t, ast.Subscript) and facts.is_fp_receiver(
                t.value, al) and const_str(t.slice) in MEMO_KEYS
            tgt_self = isinstance(t, ast.Attribute) and dotted(t) in (
                "self.preprocessing", "self.preprocessing_options")
            if not (tgt_fp or tgt_self):
                continue
            v = n.value
            src = v.args[0] if isinstance(v, ast.Call) and v.args else v
            # the remembered attribute bound to the stored record itself
            if tgt_self and ((isinstance(v, ast.Subscript)
                              and facts.is_fp_receiver(v.value, al)
                              and const_str(v.slice) in MEMO_KEYS)
                             or (isinstance(v, ast.Call) and isinstance(
                                 v.func, ast.Attribute)
                                 and v.func.attr == "get"
                                 and facts.is_fp_receiver(v.func.value, al)
                                 and v.args and const_str(
                                     v.args[0]) in MEMO_KEYS)):
                n_inst += 1
                ctx.fail(n, f"remember {norm(t)} = {norm(v)}",
                         f"`{norm(t)}` is bound to the stored settings "
                         "object itself: an in-place edit of the public "
                         "attribute edits the record the skip-if-unchanged "
                         "test compares with, the edited request equals "
                         "'what was applied' and the pipeline is not run")
                continue
            if not isinstance(src, ast.Name) or src.id not in need:
                continue
            n_inst += 1
            kind = _copy_kind(v)
            if tgt_fp and by_value:
                kind = "deep"
            ctx.check(rank[kind] >= rank[need[src.id]], n,
                      f"remember {norm(t)} = {norm(v)}",
                      f"the caller's `{src.id}` object is remembered "
                      f"{'by reference' if kind is None else 'through a shallow copy only'}"
                      ": an in-place edit of it changes what the curve "
                      "believes was applied, so the edited request is "
                      "compared with itself and skipped")
    ctx.floor("remembered preprocessing stores", n_inst, 4)


def r5_pipeline_deterministic(ctx):
    cg = CallGraph(ctx.repo)
    reach = cg.reachable([("preproc", "apply")])
    ctx.floor("functions reachable from preproc.apply", len(reach), 15)
    tables = {}
    for m in ctx.repo.modules.values():
        tables[m.name] = effects.module_tables(m)
    registries = {("preproc", "PREPROCESSORS"), ("poc", "POC_METHODS")}
    for (mn, q) in sorted(reach):
        f = cg.func((mn, q))
        ctx.analysed(f)
        amb = effects.ambient_reads(f) + effects.set_iteration(f)
        # `set(req) & set(act)` style membership algebra is order free; only
        # iteration over sets is flagged (set_iteration does that)
        for node, what in amb:
            ctx.fail(node, f"{norm(node)[:60]}",
                     f"{mn}.{q} (reachable from preproc.apply) reads "
                     f"{what}: preprocessing is no longer a function of raw "
                     "data, steps and options")
        # mutation of module-level tables
        tabs = tables.get(mn, set())
        al = effects.alias_map(f, {t: f"global:{t}" for t in tabs})
        al = {k: v for k, v in al.items()}
        for node, root, how in effects.mutations(f, al):
            if (mn, root) in registries and q.endswith("attribute_setter"):
                continue
            if q in ("preprocessing_step.attribute_setter",
                     "poc.attribute_setter"):
                continue
            ctx.fail(node, how[:80],
                     f"{mn}.{q} mutates module-level table `{root}` while "
                     "preprocessing: later calls see different state")
        if not amb:
            ctx.ok(f, f"{mn}.{q}: no ambient reads, no global mutation")
    # steps read only history-free attributes of the curve
    steps = facts.preprocessing_steps(ctx.repo)
    for f, kws, _d in steps:
        ap = f.args.args[0].arg
        for n in walk_no_nested(f, False):
            if isinstance(n, ast.Attribute) and isinstance(n.value, ast.Name)\
                    and n.value.id == ap:
                ctx.check(n.attr in APRET_ATTRS, n,
                          f"step reads {ap}.{n.attr}",
                          f"step {kws.get('identifier')} reads "
                          f"`{ap}.{n.attr}`, which is not a function of the "
                          "recorded data (object history leaks into the "
                          "preprocessed columns)")
    fa = ctx.repo.mod("preproc").func("apply")
    ap = fa.args.args[0].arg
    for n in walk_no_nested(fa, False):
        if isinstance(n, ast.Attribute) and isinstance(n.value, ast.Name) \
                and n.value.id == ap:
            ctx.check(n.attr in APRET_ATTRS, n, f"apply reads {ap}.{n.attr}",
                      f"preproc.apply reads `{ap}.{n.attr}` (object history)")


def r6_skip_test(ctx):
    ind = ctx.repo.mod("indent")
    fn = ind.func("Indentation.apply_preprocessing")
    cfg = CFG(fn)
    al = facts.fp_aliases(fn)
    params = [a.arg for a in fn.args.args]
    # defaults: None -> remembered pipeline
    for p, attr in (("preprocessing", "self.preprocessing"),
                    ("options", "self.preprocessing_options")):
        if p not in params:
            raise Undecided(f"apply_preprocessing has no parameter {p}")
        found = False
        for n in walk_no_nested(fn, False):
            if isinstance(n, ast.Assign) and norm(n.targets[0]) == p and \
                    norm(n.value) == attr:
                conds = conditions_at(n)
                if any(a.pol and a.text == f"{p} is None" for a in conds):
                    found = True
        ctx.check(found, fn, f"default of `{p}` is {attr}",
                  f"`{p}=None` no longer means the remembered {attr}")
        # ... and a *given* argument is used as given: the parameter is
        # re-bound from the curve's state only where it is None
        for n in walk_no_nested(fn, False):
            if not (isinstance(n, ast.Assign) and norm(n.targets[0]) == p):
                continue
            reads_self = [x for x in ast.walk(n.value)
                          if isinstance(x, ast.Attribute)
                          and isinstance(x.value, ast.Name)
                          and x.value.id == "self"]
            if not reads_self:
                continue
            conds = conditions_at(n)
            if any(a.pol and a.text == f"{p} is None" for a in conds):
                continue
            v = n.value
            if isinstance(v, ast.IfExp):
                t = norm(v.test)
                if t == f"{p} is None" and norm(v.orelse) == p:
                    continue
                if t == f"{p} is not None" and norm(v.body) == p:
                    continue
            if isinstance(v, ast.BoolOp):
                raise Undecided(f"`{norm(n)[:60]}`: default of `{p}` chosen "
                                "by truth value")
            ctx.fail(n, f"`{p}` re-bound from curve state: {norm(n)[:60]}",
                     f"a given `{p}` argument is combined with the curve's "
                     f"remembered state (`{norm(reads_self[0])}`) instead "
                     "of being used as given: settings of an earlier "
                     "request leak into a later one, so the columns depend "
                     "on the history and not only on raw data, steps and "
                     "options")
    applies = [n for n in cfg.nodes if any(
        call_name(c) in ("preproc.apply", "apply")
        for c in fitrules.node_calls(n))]
    if not applies:
        raise AnchorError("apply_preprocessing no longer calls preproc.apply")
    call = [c for c in fitrules.node_calls(applies[0])
            if call_name(c) in ("preproc.apply", "apply")][0]
    # arguments forwarded unchanged
    want = {"apret": "self", "identifiers": "preprocessing",
            "options": "options", "ret_details": "ret_details"}
    names = ["apret", "identifiers", "options", "ret_details"]
    got = {}
    for i, a in enumerate(call.args):
        if i < len(names):
            got[names[i]] = norm(a)
    for kw in call.keywords:
        got[kw.arg] = norm(kw.value)
    for k, v in want.items():
        ctx.check(got.get(k) == v, call, f"preproc.apply({k}={got.get(k)})",
                  f"preproc.apply receives {k}={got.get(k)} instead of {v}: "
                  "the applied pipeline is not the requested one")
    # the guarding comparison
    # (an inlined predicate duplicates the guarded block: one of the
    # sites carries the comparison, the others the trivial cases)
    conds = [a for ap in applies for a in conditions_at(ap.ast)]
    cmp_ok = False
    detail = "no comparison of remembered and requested pipeline found"
    rd = reaching_defs(cfg)
    for a in conds:
        for sub in ast.walk(a.node):
            if isinstance(sub, ast.Compare) and len(sub.ops) == 1 and \
                    isinstance(sub.ops[0], (ast.NotEq, ast.Eq)):
                sides = [sub.left, sub.comparators[0]]
                lists = [_as_lists(s, cfg, rd, a.origin) for s in sides]
                for memo, req in ((lists[0], lists[1]), (lists[1], lists[0])):
                    ok, why = _memo_vs_request(memo, req, al)
                    if ok:
                        cmp_ok = True
                    elif why:
                        detail = why
    ctx.check(cmp_ok, applies[0].ast,
              "skip test compares remembered (steps, options) with the "
              "request", "the skip-if-unchanged test is incomplete: " + detail)


def _as_lists(expr, cfg, rd, at_stmt):
    """Possible list literals an expression can denote (one-level def
    inlining for a local name)."""
    if isinstance(expr, (ast.List, ast.Tuple)):
        return [expr.elts]
    if isinstance(expr, ast.IfExp):
        # `[a, b] if <stored> else []`: either arm
        a_ = _as_lists(expr.body, cfg, rd, at_stmt)
        b_ = _as_lists(expr.orelse, cfg, rd, at_stmt)
        return a_ + b_ if a_ and b_ else []
    if isinstance(expr, ast.Name):
        node = cfg.node_of_stmt(at_stmt) if at_stmt is not None else None
        if node is None:
            return []
        out = []
        for (v, d) in rd.get(node.id, ()):
            if v == expr.id:
                dn = cfg.nodes[d]
                if dn.kind == "stmt" and isinstance(dn.ast, ast.Assign) and \
                        isinstance(dn.ast.value, (ast.List, ast.Tuple)):
                    out.append(dn.ast.value.elts)
                elif dn.kind == "stmt" and isinstance(dn.ast, ast.Assign) \
                        and isinstance(dn.ast.value, ast.Name) and \
                        dn.ast.value.id != expr.id:
                    sub = _as_lists(dn.ast.value, cfg, rd, dn.ast)
                    if not sub:
                        return []
                    out.extend(sub)
                else:
                    return []
        return out
    return []


def _memo_vs_request(memo_lists, req_lists, al):
    if not memo_lists or not req_lists:
        return False, ""
    full = [m for m in memo_lists if m]
    if not full:
        return False, ""
    for m in full:
        keys = []
        for e in m:
            if isinstance(e, ast.Subscript) and facts.is_fp_receiver(
                    e.value, al):
                keys.append(const_str(e.slice))
            else:
                keys.append(None)
        for r in req_lists:
            names = [norm(e) for e in r]
            pairs = dict(zip(keys, names))
            if pairs.get("preprocessing") != "preprocessing":
                return False, ("remembered steps are not compared with the "
                               "requested steps")
            if pairs.get("preprocessing_options") != "options":
                return False, ("remembered options are not compared with "
                               "the requested options (a change of options "
                               "alone is not noticed)")
            if len(keys) != len(names):
                return False, "compared lists differ in length"
    return True, ""


def r7_fit_model_forwards(ctx):
    """fit_model(preprocessing=..., preprocessing_options=...) forwards the
    given values; the remembered options are used only when the keyword is
    absent (not when it is falsy, e.g. an explicit {})."""
    ind = ctx.repo.mod("indent")
    fn = ind.func("Indentation.fit_model")
    ctx.analysed(fn)
    from ..symres import Resolver
    R = Resolver(fn)
    calls = [c for c in calls_in(fn)
             if call_name(c) == "self.apply_preprocessing"]
    ctx.floor("apply_preprocessing call in fit_model", len(calls), 1)
    c = calls[0]
    kws = {k.arg: k.value for k in c.keywords}
    if c.args:
        kws.setdefault("preprocessing", c.args[0])
        if len(c.args) > 1:
            kws.setdefault("options", c.args[1])
    p_ = kws.get("preprocessing")
    ctx.check(p_ is not None and R.text(p_) in (
        "kwargs['preprocessing']",
        "kwargs.get('preprocessing', self.preprocessing)",
        "kwargs.get('preprocessing')"), c,
              f"steps forwarded: {R.text(p_) if p_ is not None else None}",
              "fit_model does not forward the given preprocessing steps")
    o_ = kws.get("options")
    ot = R.text(o_) if o_ is not None else "None"
    good = ("kwargs.get('preprocessing_options', self.preprocessing_options)",
            "kwargs['preprocessing_options'] if 'preprocessing_options' in "
            "kwargs else self.preprocessing_options")
    bad_or = o_ is not None and any(isinstance(x, ast.BoolOp) and isinstance(
        x.op, ast.Or) for x in ast.walk(R.resolve(o_)))
    split_ok = False
    if isinstance(o_, ast.Name) and hasattr(o_, "_parent"):
        vs = R.reaching_values(o_)
        if vs and len(vs) == 2:
            got = set()
            for v in vs:
                st = getattr(v, "_parent", None)
                pres = [a.pol for a in conditions_at(st)
                        if a.text == "'preprocessing_options' in kwargs"] \
                    if st is not None else []
                got.add((R.text(v), pres[-1] if pres else None))
            split_ok = got == {("kwargs['preprocessing_options']", True),
                               ("self.preprocessing_options", False)}
            if split_ok:
                ot = "given options if present else the remembered ones"
    ctx.check((ot in good or split_ok) and not bad_or, c,
              f"options forwarded: {ot[:70]}",
              "fit_model replaces explicitly given preprocessing options by "
              "the remembered ones when they are falsy (an explicit {} is "
              "not the same as 'not given'): the columns then depend on the "
              "options of an earlier pipeline"
              if bad_or else
              "fit_model does not forward the given preprocessing options "
              "(default: the remembered ones only when the keyword is "
              "absent)")
    conds = conditions_at(c)
    ctx.check(all(_kleene(a.node, {"'preprocessing' in kwargs": True})
                  == a.pol for a in conds), c,
              "preprocessing applied whenever the steps keyword is given",
              "fit_model does not apply the given preprocessing steps on "
              "every call that passes them")


def r9_failed_pipeline_leaves_raw_data(ctx):
    """A pipeline that fails part-way (unknown step, missing requirement,
    a step that raises) has already edited columns.  Nothing remembers
    it, so the curve must be back at its raw data when the exception
    leaves - in preproc.apply itself or in apply_preprocessing."""
    pre = ctx.repo.mod("preproc")
    fn = pre.func("apply")
    ctx.analysed(fn)
    first = fn.args.args[0].arg
    cfg = CFG(fn)
    resets = [n for n in cfg.nodes if any(
        call_name(c) == f"{first}.reset_data" for c in fitrules.node_calls(n))]
    if not resets:
        raise Undecided("preproc.apply has no reset_data()")
    loops = [n for n in walk_no_nested(fn, False) if isinstance(n, ast.For)
             and "identifiers" in norm(n.iter)]
    if not loops:
        raise AnchorError("apply has no loop over identifiers")
    lp = loops[0]
    body_nodes = [n for n in cfg.nodes if n.ast is not None and any(
        x is n.ast for s in lp.body for x in ast.walk(s))]
    raisers = [n for n in body_nodes if any(
        lab == "exc" for _, lab in cfg.succ[n.id])]
    ctx.floor("statements of the step loop that can raise", len(raisers), 2)
    rid = {n.id for n in resets}
    leaky = None
    for n in raisers:
        r = cfg.reach([n.id], avoid=rid, via_first=("exc",))
        if cfg.rexit in r:
            leaky = leaky or n
    if leaky is None:
        ctx.ok(lp, "an exception in the step loop passes reset_data() "
               "before it leaves preproc.apply")
        return
    # ... or the caller restores the raw data
    ind = ctx.repo.mod("indent")
    ap = ind.func("Indentation.apply_preprocessing")
    cfg2 = CFG(ap)
    calls = [n for n in cfg2.nodes if any(
        call_name(c) in ("preproc.apply", "apply")
        for c in fitrules.node_calls(n))]
    rs2 = {n.id for n in cfg2.nodes if any(
        call_name(c) in ("self.reset_data",)
        for c in fitrules.node_calls(n))}
    caller_ok = bool(calls) and bool(rs2) and all(
        cfg2.rexit not in cfg2.reach([c.id], avoid=rs2, via_first=("exc",))
        for c in calls)
    ctx.check(caller_ok, leaky.ast,
              "a failing pipeline leaves the curve at its raw data",
              "when a step of the pipeline raises (unknown identifier, "
              "missing requirement, failing step), the columns edited by "
              "the steps before it stay, while no pipeline is remembered: "
              "a later fit stores the default (empty) pipeline as applied "
              "and apply_preprocessing([], {}) is then skipped - the "
              "curve keeps half-preprocessed columns that a fresh curve "
              "does not have (neither preproc.apply nor "
              "apply_preprocessing resets the data on the exception path)")


def r8_remembered_after_success(ctx):
    """self.preprocessing / self.preprocessing_options are (re)assigned only
    where preproc.apply can no longer fail."""
    ind = ctx.repo.mod("indent")
    fn = ind.func("Indentation.apply_preprocessing")
    cfg = CFG(fn)
    applies = {n.id for n in cfg.nodes if any(
        call_name(c) in ("preproc.apply", "apply")
        for c in fitrules.node_calls(n))}
    stores = [n for n in cfg.nodes if n.kind == "stmt"
              and isinstance(n.ast, ast.Assign)
              and any(dotted(t) in ("self.preprocessing",
                                    "self.preprocessing_options")
                      for t in n.ast.targets)]
    ctx.floor("stores of the remembered pipeline", len(stores), 2)
    for st in stores:
        later = cfg.reach([st.id], skip_labels=("exc",))
        ctx.check(not (later & applies), st.ast,
                  f"{norm(st.ast.targets[0])} remembered after the pipeline "
                  "ran",
                  f"{norm(st.ast.targets[0])} is assigned before "
                  "preproc.apply has accepted the request: a rejected "
                  "request is reported as the curve's preprocessing and is "
                  "used as default for the next call")


def _kleene(test, known):
    """three-valued value of `test` given {atom text: bool}"""
    if isinstance(test, ast.BoolOp):
        vals = [_kleene(v, known) for v in test.values]
        if isinstance(test.op, ast.And):
            if any(v is False for v in vals):
                return False
            return True if all(v is True for v in vals) else None
        if any(v is True for v in vals):
            return True
        return False if all(v is False for v in vals) else None
    if isinstance(test, ast.UnaryOp) and isinstance(test.op, ast.Not):
        v = _kleene(test.operand, known)
        return None if v is None else (not v)
    t = norm(test)
    if t in known:
        return known[t]
    if isinstance(test, ast.Compare) and len(test.ops) == 1 and isinstance(
            test.ops[0], ast.NotIn):
        t2 = f"{norm(test.left)} in {norm(test.comparators[0])}"
        if t2 in known:
            return not known[t2]
    return None


def r10_settings_describe_the_data(ctx):
    """The preprocessing settings stored in fit_properties describe the
    columns: fit_model copies every keyword into fit_properties, so a given
    `preprocessing` or `preprocessing_options` keyword must have gone
    through apply_preprocessing (with that very value) before it is
    stored - otherwise results are shown for a pipeline that never ran and
    the skip test of a later apply_preprocessing call sees 'unchanged'."""
    ind = ctx.repo.mod("indent")
    fn = ind.func("Indentation.fit_model")
    ctx.analysed(fn)
    from ..astutil import bound_args
    R = Resolver(fn)
    apf = ind.func("Indentation.apply_preprocessing")
    # the generic keyword loop
    loops = []
    for i, st in enumerate(fn.body):
        if isinstance(st, ast.For) and "kwargs" in norm(st.iter):
            stores = [a for a in ast.walk(st) if isinstance(a, ast.Assign)
                      and isinstance(a.targets[0], ast.Subscript)
                      and norm(a.targets[0].value) in ("self.fit_properties",
                                                       "fp")]
            if stores:
                loops.append((i, st, stores))
    if not loops:
        raise Undecided("fit_model: the loop copying the keywords into "
                        "fit_properties was not found")
    li, lp, stores = loops[0]
    kvar = norm(lp.target) if isinstance(lp.target, ast.Name) else None
    for key, param in (("preprocessing", "preprocessing"),
                       ("preprocessing_options", "options")):
        # is the key excluded from the loop?
        excluded = False
        for a in stores:
            for c in conditions_at(a, stop=lp):
                v = _kleene(c.node, {f"{kvar} == '{key}'": True,
                                     f"{kvar} != '{key}'": False})
                if v is None and isinstance(c.node, ast.Compare) and \
                        isinstance(c.node.ops[0], (ast.In, ast.NotIn)) and \
                        norm(c.node.left) == kvar:
                    from ..astutil import literal
                    try:
                        lit = literal(c.node.comparators[0])
                    except Exception:
                        lit = None
                    if isinstance(lit, (list, tuple, set)):
                        v = (key in lit) == isinstance(c.node.ops[0], ast.In)
                if v is not None and v != c.pol:
                    excluded = True
        if excluded:
            ctx.ok(lp, f"'{key}' is not copied by the keyword loop")
            continue
        atom = f"'{key}' in kwargs"
        good = None
        seen = []
        for st in fn.body[:li]:
            for c in [x for x in ast.walk(st) if isinstance(x, ast.Call)
                      and call_name(x) == "self.apply_preprocessing"]:
                conds = conditions_at(c)
                implied = all(_kleene(a.node, {atom: True}) == a.pol
                              for a in conds)
                ba = bound_args(c, apf)
                arg = ba.get(param) if ba else None
                if arg is None:
                    seen.append((c, "value not forwarded"))
                    continue
                vals = [arg]
                if isinstance(arg, ast.Name) and hasattr(arg, "_parent"):
                    vs = R.reaching_values(arg)
                    if vs:
                        vals = vs
                forwards = False
                for v in vals:
                    rv_ = R.resolve(v)
                    t = R.text(v)
                    if isinstance(rv_, ast.BoolOp):
                        # `given or remembered`: an explicitly given empty
                        # value is replaced by the remembered one
                        continue
                    if t == f"kwargs['{key}']" or (isinstance(
                            rv_, ast.Call) and t.startswith(
                            f"kwargs.get('{key}'")) or t.startswith(
                            f"kwargs['{key}'] if '{key}' in kwargs"):
                        forwards = True
                if implied and forwards:
                    good = c
                else:
                    seen.append((c, ("not applied whenever the keyword is "
                                     "given" if not implied else
                                     "another value is applied")))
        ctx.check(good is not None, lp,
                  f"keyword '{key}' is applied to the data before it is "
                  "stored",
                  f"fit_model stores a given `{key}` in fit_properties "
                  "without running the pipeline with it ("
                  + ("; ".join(f"line {c.lineno}: {why}" for c, why in seen)
                     or "no apply_preprocessing call before the loop")
                  + "): the fit is computed from columns of the previous "
                  "pipeline while the stored settings (and the hash) claim "
                  "the new one, and a later apply_preprocessing with the "
                  "stored settings is skipped as 'unchanged'")


def r11_own_state(ctx):
    """The remembered pipeline of a curve is the curve's own object (not a
    module-level default shared by all curves), and fit_properties get
    their preprocessing entries only from apply_preprocessing or from the
    keyword loop R10 guards."""
    from .. import sharedstate
    n = sharedstate.rule(ctx, {"src/nanite/indent.py"})
    ctx.floor("instance attribute stores in indent.py", n, 5)
    for m, q, f in ctx.repo.all_funcs():
        if m.name == "fit" or q == "Indentation.apply_preprocessing":
            continue
        for st in walk_no_nested(f, False):
            if not isinstance(st, ast.Assign):
                continue
            for t in st.targets:
                if isinstance(t, ast.Subscript) and const_str(
                        t.slice) in MEMO_KEYS and (
                        norm(t.value).endswith("fit_properties")
                        or norm(t.value) in ("fp", "self.fp")):
                    ctx.fail(st, f"{m.name}.{q}: {norm(t)[:50]} stored",
                             f"{m.relpath}:{q} writes "
                             f"fit_properties['{const_str(t.slice)}'] "
                             "outside apply_preprocessing: the stored "
                             "pipeline is then not the one that produced "
                             "the columns (the skip test of the next "
                             "apply_preprocessing call sees 'unchanged' "
                             "and a rejected or never-run pipeline is "
                             "reported as applied)")


def r12_declared_choices_enforced(ctx):
    """A step that declares the admissible values of an option (`choices`
    in its decorator) rejects every other value: an invalid request must
    fail - and so never be remembered as applied - instead of being
    treated as one of the valid ones."""
    n = 0
    for f, kws, d in facts.preprocessing_steps(ctx.repo):
        opts = kws.get("options")
        if not isinstance(opts, (list, tuple)):
            continue
        params = [a.arg for a in f.args.args + f.args.kwonlyargs]
        for o in opts:
            if not isinstance(o, dict) or not isinstance(
                    o.get("choices"), (list, tuple)) or not all(
                    isinstance(c, str) for c in o["choices"]):
                continue
            name = o.get("name")
            if name not in params:
                continue
            n += 1
            choices = list(o["choices"])
            ok = False
            for r in walk_no_nested(f, False):
                if not isinstance(r, ast.Raise):
                    continue
                conds = conditions_at(r)
                neg = {a.text for a in conds if not a.pol}
                if all(f"{name} == '{c}'" in neg or f"'{c}' == {name}" in neg
                       for c in choices) or any(
                        (not a.pol) and a.text.replace(" ", "").startswith(
                            f"{name}in") and all(repr(c) in a.text
                                                 for c in choices)
                        for a in conds):
                    ok = True
            ctx.check(ok, f, f"{kws.get('identifier')}: `{name}` outside "
                      f"{choices} is rejected",
                      f"step '{kws.get('identifier')}' declares the choices "
                      f"{choices} for `{name}` but has no `raise` that is "
                      "reached for every other value: an undefined value is "
                      "processed as if it were one of them, and the invalid "
                      "request is remembered and reported as applied")
    ctx.floor("options with declared choices", n, 2)



def r13_bypass_writers(ctx):
    """a wholesale replacement of the fit properties (restore/update of the
    underlying dict) can put back a remembered pipeline that the columns no
    longer belong to: shared with C03-R3"""
    from .c03 import r3_bypass_writers
    r3_bypass_writers(ctx)


RULES = [
    ("C06-R1", "preproc.apply restarts from raw data on every path",
     r1_restart_from_raw),
    ("C06-R2", "raw column store is never addressed; steps only assign "
     "columns", r2_raw_untouched),
    ("C06-R3", "memo typestate: nothing remembered when preproc.apply fails; "
     "the request after success", r3_commit_after_success),
    ("C06-R4", "remembered steps/options pass a copy barrier", r4_memo_by_value),
    ("C06-R5", "pipeline call graph is deterministic and history free",
     r5_pipeline_deterministic),
    ("C06-R6", "skip-if-unchanged compares both items; arguments forwarded "
     "unchanged", r6_skip_test),
    ("C06-R7", "fit_model forwards steps and options; remembered options "
     "only when the keyword is absent", r7_fit_model_forwards),
    ("C06-R9", "a pipeline that fails part-way leaves the curve at its raw "
     "data", r9_failed_pipeline_leaves_raw_data),
    ("C06-R8", "the remembered pipeline attributes are assigned only after "
     "the pipeline ran", r8_remembered_after_success),
    ("C06-R10", "fit_model applies a given steps/options keyword before "
     "storing it", r10_settings_describe_the_data),
    ("C06-R11", "a curve's remembered pipeline is its own object; the "
     "stored pipeline is written by apply_preprocessing only",
     r11_own_state),
    ("C06-R12", "declared option choices are enforced (an undefined value "
     "is rejected, not processed as a valid one)",
     r12_declared_choices_enforced),
    ("C06-R13", 'the remembered pipeline is only written through FitProperties.__setitem__ or by the enumerated writers (no wholesale restore behind a new preprocessing)',
     r13_bypass_writers),
]
