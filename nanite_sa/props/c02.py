"""C02 — shipped models evaluate their published contact-mechanics formulas."""
from __future__ import annotations

import ast
import re
from fractions import Fraction

from .. import facts
from ..astutil import (call_name, const_str, docstring, dotted, literal, norm,
                       walk_no_nested)
from ..formula import (RF, LatexParser, from_py, inline_math, latex_equations,
                       math_blocks, sneddon_sphere_coefficients)
from ..loader import AnchorError, Undecided

EXPLANATION = (
    "The specification is each model module's own docstring (model_doc, "
    "from which the documentation is generated). For each of the shipped "
    "model modules the body of model_func is inlined by def-use into one "
    "expression for the contact branch and one for the off-contact branch "
    "(piecewise interpretation of the zeros_like / masked-store idiom), the "
    "first `.. math::` block (plus the :math: constants) is parsed, and "
    "both are brought to an exact normal form (rational functions with "
    "Fraction coefficients and rational exponents; decimal literals "
    "converted from their source text). (R1) F_code - baseline == F_doc, "
    "with angle parameters documented in degrees entering trigonometric "
    "functions as x*pi/180; (R2) off contact the value is exactly the "
    "baseline, the contact mask is the elementwise test (contact_point - "
    "delta) > 0 and abscissa/contact point enter only through that "
    "difference; (R3) the coefficients of the truncated sphere series "
    "equal the Taylor coefficients of Sneddon's implicit sphere solution, "
    "recomputed by exact rational series reversion inside the checker.")
NOT_DECIDED = [
    "the documented 1e-4*F_max truncation bound up to delta = R (a "
    "numerical error bound)",
    "the size of floating-point round-off: two algebraically equal "
    "spellings of a formula are equal to the formula engine; one that "
    "loses digits by cancellation (seeded change C02-Q: E_S - (E_S - E_L)/"
    "(1 + P xi^n) instead of E_L + (E_S - E_L) P xi^n/(1 + P xi^n)) is not "
    "reported",
]
ASSUMPTIONS = [
    "numpy's sqrt/tan/** evaluate the mathematical functions they name",
]

# the shipped models are evaluated through the registry's wrappers
MEMO_FILES = ("src/nanite/model/residuals.py", "src/nanite/model/core.py")

POWER_LAW_DEGREE = {  # from the statement of C11
    "hertz_para": Fraction(3, 2), "hertz_cone": Fraction(2),
    "hertz_pyr3s": Fraction(2),
}
MODULI = ("E", "E_S", "E_L")


class ModelEval:
    """Piecewise symbolic evaluation of a shipped model function."""

    def __init__(self, mod, fn=None, depth=0):
        self.mod = mod
        self.depth = depth
        self.fn = fn if fn is not None else facts.model_func(mod)
        self.params = [a.arg for a in self.fn.args.args]
        if len(self.params) < 3:
            raise Undecided(f"{mod.relpath}: model_func has too few "
                            "parameters")
        self.xname = self.params[0]
        self.mask = {}     # mask name -> (lhs expr, op, rhs expr, node)
        self.on = {}
        self.off = {}
        self.root_def = None
        self.slice_store = None
        self.ret_on = self.ret_off = None
        self.early = []
        self.limiters = []
        self.delta_uses = []
        self._run()

    def _sym_env(self):
        env = {p: RF.sym(p) for p in self.params}
        return env

    def _run(self):
        self.on = self._sym_env()
        self.off = self._sym_env()
        body = [s for s in self.fn.body
                if not (isinstance(s, ast.Expr)
                        and isinstance(s.value, ast.Constant))]
        for st in body:
            if isinstance(st, ast.Assign) and len(st.targets) == 1:
                t, v = st.targets[0], st.value
                if isinstance(t, ast.Name):
                    self._assign(t.id, v, st)
                    continue
                if isinstance(t, ast.Subscript) and isinstance(
                        t.value, ast.Name):
                    self._masked_store(t, v, st)
                    continue
            if isinstance(st, ast.If) and not st.orelse and len(
                    st.body) == 1 and isinstance(st.body[0], ast.Return) \
                    and _no_contact_test(st.test, self.mask):
                # fast path for "no point is in contact": every point is
                # off contact, the value must be the off-contact value
                self.early.append((st, self._ev(st.body[0].value, self.off,
                                                False)))
                continue
            if isinstance(st, ast.Return):
                self.ret_on = self._ev(st.value, self.on, True)
                self.ret_off = self._ev(st.value, self.off, False)
                return
            raise Undecided(f"{self.mod.relpath}: statement not understood "
                            f"in model function: {norm(st)[:60]}")
        raise Undecided(f"{self.mod.relpath}: model function has no return")

    def _assign(self, name, v, st):
        # mask definition
        if isinstance(v, ast.Compare) and len(v.ops) == 1:
            self.mask[name] = (v.left, type(v.ops[0]).__name__,
                               v.comparators[0], st)
            return
        # a mask combined from several elementwise tests: the first
        # comparison is kept as the mask, the other terms are reported
        if isinstance(v, ast.BinOp) and isinstance(v.op, (ast.BitAnd,
                                                          ast.BitOr)):
            parts = []

            def flat(e):
                if isinstance(e, ast.BinOp) and isinstance(
                        e.op, (ast.BitAnd, ast.BitOr)):
                    flat(e.left)
                    flat(e.right)
                else:
                    parts.append(e)
            flat(v)
            cmp_ = [p_ for p_ in parts if isinstance(p_, ast.Compare)
                    and len(p_.ops) == 1]
            if cmp_:
                c0 = cmp_[0]
                self.mask[name] = (c0.left, type(c0.ops[0]).__name__,
                                   c0.comparators[0], st)
                self.mask_extra = getattr(self, "mask_extra", []) + [
                    (name, p_, st) for p_ in parts if p_ is not c0]
                return
        if isinstance(v, ast.Call):
            cn = call_name(v) or ""
            short = cn.split(".")[-1]
            if short in ("zeros_like", "zeros"):
                self.on[name] = RF.const(0)
                self.off[name] = RF.const(0)
                return
            if short in ("ones_like", "ones"):
                self.on[name] = RF.const(1)
                self.off[name] = RF.const(1)
                return
            if short == "full_like" and len(v.args) >= 2:
                self.on[name] = self._ev(v.args[1], self.on, True)
                self.off[name] = self._ev(v.args[1], self.off, False)
                return
            if short in ("searchsorted", "argmax", "argmin", "where",
                         "nonzero", "flatnonzero"):
                self.mask[name] = ("<position>", short, None, st)
                return
        if name == "root" or (isinstance(v, ast.BinOp) and isinstance(
                v.op, ast.Sub) and {norm(v.left), norm(v.right)} == {
                    "contact_point", self.xname}):
            if isinstance(v, ast.BinOp) and isinstance(v.op, ast.Sub) and \
                    {norm(v.left), norm(v.right)} == {"contact_point",
                                                      self.xname}:
                sign = 1 if norm(v.left) == "contact_point" else -1
                self.root_def = (name, sign, st)
                d = RF.sym("delta_c")    # depth = contact_point - abscissa
                self.on[name] = d if sign > 0 else -d
                self.off[name] = self.on[name]
                return
        self.on[name] = self._ev(v, self.on, True)
        try:
            self.off[name] = self._ev(v, self.off, False)
        except Undecided as e:
            if "masked read" not in str(e) and "unknown name" not in str(e):
                raise
            # a value that exists only inside the contact mask
            self.off.pop(name, None)

    def _masked_store(self, t, v, st):
        arr = t.value.id
        idx = t.slice
        if isinstance(idx, ast.Slice):
            self.slice_store = st
            raise Undecided("SLICE")
        if isinstance(idx, ast.Name) and idx.id in self.mask:
            m = self.mask[idx.id]
            if m[0] == "<position>":
                self.slice_store = st
                raise Undecided("SLICE")
            # store applies inside the mask only
            self.on[arr] = self._ev(v, self.on, True, mask=idx.id)
            return
        raise Undecided(f"{self.mod.relpath}: unrecognised masked store "
                        f"{norm(st)[:60]}")

    def _ev(self, expr, env, on, mask=None):
        def sub(n, ev):
            # X[mask] -> X (elementwise within the mask)
            if isinstance(n.slice, ast.Name) and n.slice.id in self.mask \
                    and isinstance(n.value, ast.Name):
                if not on:
                    raise Undecided("masked read outside a masked store")
                return ev(n.value)
            return None

        def call(n, ev):
            return self._call(n, ev, on)
        return from_py(expr, env, on_subscript=sub, on_call=call)

    def _is_depth(self, e):
        return isinstance(e, ast.BinOp) and isinstance(e.op, ast.Sub) and \
            norm(e.left) == "contact_point" and norm(e.right) == self.xname

    def _call(self, n, ev, on):
        d = dotted(n.func) or ""
        short = d.split(".")[-1]
        # np.clip(contact_point - delta, 0, None) / np.maximum(.., 0):
        # the depth inside the contact region, 0 outside
        x = None
        if short == "clip" and len(n.args) >= 2 and norm(n.args[1]) == "0" \
                and (len(n.args) == 2 or norm(n.args[2]) == "None"):
            x = n.args[0]
        elif short == "maximum" and len(n.args) == 2 and "0" in (
                norm(n.args[0]), norm(n.args[1])):
            x = n.args[1] if norm(n.args[0]) == "0" else n.args[0]
        if x is not None:
            if isinstance(x, ast.Name) and self.root_def and \
                    x.id == self.root_def[0] and self.root_def[1] > 0:
                pass
            elif self._is_depth(x):
                if self.root_def is None:
                    self.root_def = ("<inline>", 1, n)
            else:
                # a limiter on something other than the depth: the value
                # passes through for the comparison with the documented
                # formula, the limiter itself is reported
                self.limiters.append(n)
                return ev(x)
            if "<clip>" not in self.mask:
                self.mask["<clip>"] = (ast.Name(id=self.root_def[0],
                                                ctx=ast.Load()), "Gt",
                                       ast.Constant(value=0), n)
            return RF.sym("delta_c") if on else RF.const(0)
        if x is None and short in ("clip", "maximum", "minimum", "fmax",
                                   "fmin") and n.args:
            self.limiters.append(n)
            return ev(n.args[0])
        # a call of another function of the package: its piecewise value
        # with the arguments substituted
        if isinstance(n.func, ast.Name) and self.depth < 3:
            callee = self._resolve_callee(n.func.id)
            if callee is not None:
                cmod, cfn = callee
                sub_ = ModelEval(cmod, cfn, self.depth + 1)
                params = sub_.params
                bound = {}
                for i, a in enumerate(n.args):
                    if i < len(params):
                        bound[params[i]] = a
                for kw in n.keywords:
                    if kw.arg:
                        bound[kw.arg] = kw.value
                # defaults
                nd = len(cfn.args.defaults)
                for p_, dv in zip(params[len(params) - nd:],
                                  cfn.args.defaults):
                    bound.setdefault(p_, dv)
                mapping = {}
                for p_, a in bound.items():
                    if p_ == sub_.xname:
                        if norm(a) != self.xname:
                            raise Undecided("callee evaluated on another "
                                            "abscissa")
                        continue
                    if p_ == "contact_point":
                        if norm(a) != "contact_point":
                            raise Undecided("callee evaluated with another "
                                            "contact point")
                        continue
                    mapping[p_] = ev(a)
                if sub_.root_def is not None and self.root_def is None:
                    self.root_def = ("<callee>", sub_.root_def[1], n)
                for mk, mv in sub_.mask.items():
                    lhs = mv[0]
                    if isinstance(lhs, ast.Name) and sub_.root_def and \
                            lhs.id == sub_.root_def[0] and self.root_def:
                        lhs = ast.Name(id=self.root_def[0], ctx=ast.Load())
                    self.mask.setdefault(f"<callee>{mk}",
                                         (lhs,) + tuple(mv[1:]))
                val = sub_.ret_on if on else sub_.ret_off
                return val.subs(mapping)
        return None

    def _resolve_callee(self, name):
        if name in self.mod.funcs and self.mod.funcs[name] is not self.fn:
            return self.mod, self.mod.funcs[name]
        tgt = self.mod.imports.get(name)
        repo = getattr(self.mod, "repo", None)
        if tgt and repo is not None and tgt.startswith("."):
            parts = tgt.lstrip(".").split(".")
            pkg = self.mod.name.rsplit(".", 1)[0] if "." in self.mod.name \
                else ""
            modname = ".".join([p for p in [pkg] + parts[:-1] if p])
            m2 = repo.modules.get(modname)
            if m2 is not None and parts[-1] in m2.funcs:
                return m2, m2.funcs[parts[-1]]
        return None


def _no_contact_test(test, masks):
    """`not np.any(mask)` / `not mask.any()` / `np.sum(mask) == 0`"""
    t = test
    if isinstance(t, ast.UnaryOp) and isinstance(t.op, ast.Not):
        c = t.operand
        if isinstance(c, ast.Call):
            if (call_name(c) or "") in ("np.any", "numpy.any", "any",
                                        "np.sum", "np.count_nonzero") \
                    and c.args and isinstance(c.args[0], ast.Name) \
                    and c.args[0].id in masks:
                return True
            if isinstance(c.func, ast.Attribute) and c.func.attr in (
                    "any", "sum") and isinstance(c.func.value, ast.Name) \
                    and c.func.value.id in masks:
                return True
    return False


def doc_formula(mod, fn):
    """F_doc as RF (without baseline) from the first math block."""
    doc = docstring(fn)
    blocks = math_blocks(doc)
    if not blocks:
        raise AnchorError(f"{mod.relpath}: model docstring has no "
                          ".. math:: block")
    eqs = latex_equations(blocks[0])
    if not eqs:
        raise Undecided(f"{mod.relpath}: no equation in the first math "
                        "block")
    # parameters documented in degrees
    deg = set()
    for m in re.finditer(r"^\s*(\w+)\s*:\s*\w+\s*\n\s+(.*)$", doc, re.M):
        if "[degrees]" in m.group(2) or "[deg]" in m.group(2) or \
                "[°]" in m.group(2):
            deg.add(m.group(1))
    consts = {}
    for im in inline_math(doc):
        mm = re.fullmatch(r"\s*([A-Za-z_\\{}]+)\s*=\s*([0-9./]+)\s*", im)
        if mm:
            name = LatexParser(mm.group(1)).parse()
            syms = [k for k in name.symbols()]
            if len(syms) == 1:
                val = LatexParser(mm.group(2)).parse()
                consts[syms[0]] = val
    env = dict(consts)
    env["delta"] = RF.sym("delta_c")
    defs = {}
    for lhs, rhs in eqs:
        l = LatexParser(lhs).parse()
        syms = list(l.symbols())
        if len(syms) != 1:
            raise Undecided(f"unrecognised left-hand side {lhs}")
        defs[syms[0]] = rhs
    if "F" not in defs:
        raise Undecided(f"{mod.relpath}: first math block does not define F")
    # resolve helper definitions (E_star, xi) innermost first
    resolved = {}
    pending = dict(defs)
    for _ in range(len(pending) + 1):
        for name, rhs in list(pending.items()):
            others = [o for o in pending if o != name]
            txt = rhs
            try:
                e2 = dict(env)
                e2.update(resolved)
                val = LatexParser(rhs, e2, degree_symbols=deg).parse()
            except Undecided:
                raise
            if not any(val.mentions(o) for o in others):
                resolved[name] = val
                del pending[name]
    if "F" not in resolved:
        raise Undecided(f"{mod.relpath}: cyclic definitions in the math "
                        "block")
    return resolved["F"], deg, consts


def _units_degree(mod):
    keys = facts.module_list(mod, "parameter_keys")
    units = facts.module_list(mod, "parameter_units")
    return {k for k, u in zip(keys, units) if u in ("°", "deg", "degrees")}


def _evaluate(mod):
    try:
        return ModelEval(mod), None
    except Undecided as e:
        if str(e) == "SLICE":
            return None, "slice"
        raise


def r1_formula_agreement(ctx):
    mods = facts.model_modules(ctx.repo)
    ctx.floor("shipped model modules", len(mods), 5)
    for mod in mods:
        fn = facts.model_func(mod)
        ctx.analysed(fn)
        md = mod.assign("model_doc")
        ctx.check(norm(md) == f"{fn.name}.__doc__", md,
                  f"model_doc = {norm(md)}",
                  "model_doc is not the docstring of the model function")
        me, why = _evaluate(mod)
        if me is None:
            ctx.fail(fn, "contact region selected by position",
                     f"{mod.relpath}: the contact region is selected by "
                     "array position (slice/searchsorted), not by the "
                     "elementwise test (contact_point - delta) > 0: for "
                     "non-monotonic sampling the documented formula is not "
                     "evaluated at every point")
            continue
        fdoc, deg, consts = doc_formula(mod, fn)
        udeg = _units_degree(mod)
        ctx.check(deg == udeg, fn, f"angle parameters in degrees: {sorted(deg)}",
                  f"docstring says {sorted(deg)} are in degrees but "
                  f"parameter_units marks {sorted(udeg)}")
        fcode = me.ret_on - RF.sym("baseline")
        same = fcode == fdoc
        msg = ""
        if not same:
            msg = (f"{mod.relpath}: in contact the code evaluates\n"
                   f"      F - baseline = {fcode.canon()}\n"
                   f"      but the documented formula is\n"
                   f"      F = {fdoc.canon()}")
        ctx.check(same, fn, f"{mod.name.split('.')[-1]}: code == documented "
                  "formula", msg)


def r2_off_contact(ctx):
    mods = facts.model_modules(ctx.repo)
    for mod in mods:
        fn = facts.model_func(mod)
        me, why = _evaluate(mod)
        if me is None:
            ctx.fail(fn, "off-contact region selected by position",
                     f"{mod.relpath}: contact region selected by array "
                     "position; off-contact points of unsorted data receive "
                     "the contact formula")
            continue
        name = mod.name.split(".")[-1]
        ctx.check(me.ret_off == RF.sym("baseline"), fn,
                  f"{name}: off contact F == baseline",
                  f"{mod.relpath}: where the tip is not in contact the "
                  f"function returns {me.ret_off.canon()} instead of exactly "
                  "the baseline")
        for lim in me.limiters:
            ctx.fail(lim, f"{name}: limiter {norm(lim)[:50]}",
                     f"{mod.relpath}: the model applies `{norm(lim)[:60]}` "
                     f"to an intermediate quantity; the published formula "
                     f"has no such limit, so wherever the limiter is "
                     f"active (e.g. bounds given in the other order) the "
                     f"function no longer evaluates the formula")
        for st_, val in me.early:
            ctx.check(val == RF.sym("baseline"), st_,
                      f"{name}: no-contact fast path returns the baseline",
                      f"{mod.relpath}: when no point is in contact the "
                      f"function returns {val.canon()} instead of exactly "
                      "the baseline")
        # the mask
        if me.root_def is None:
            ctx.fail(fn, f"{name}: depth = contact_point - abscissa",
                     "the indentation depth is not computed as "
                     "contact_point - delta")
        else:
            nm, sign, st = me.root_def
            ctx.check(sign > 0, st, f"{name}: {norm(st)}",
                      "the indentation depth has the wrong sign "
                      "(delta - contact_point)")
            for mname, (lhs, op, rhs, st2) in me.mask.items():
                ok = isinstance(lhs, ast.Name) and lhs.id == nm and \
                    op in ("Gt", "GtE") and norm(rhs) == "0"
                ok2 = norm(lhs) == "0" and op in ("Lt", "LtE") and \
                    norm(rhs) == nm
                ctx.check(ok or ok2, st2, f"{name}: contact mask {norm(st2)}",
                          "the contact mask is not (contact_point - delta) "
                          "> 0")
        for mname, extra, st2 in getattr(me, "mask_extra", []):
            ctx.fail(st2, f"{name}: contact mask has the extra term "
                     f"{norm(extra)[:40]}",
                     f"{mod.relpath}: the contact region is "
                     f"(contact_point - delta) > 0 combined with "
                     f"`{norm(extra)[:60]}`: points in contact that fail the "
                     "extra test (e.g. within an absolute tolerance of the "
                     "contact point - lengths are in metres) receive the "
                     "bare baseline instead of the documented formula")
        # abscissa and contact point enter only through their difference
        for sym in (me.xname, "contact_point"):
            bad = me.ret_on.mentions(sym) or me.ret_off.mentions(sym)
            ctx.check(not bad, fn, f"{name}: {sym} enters only via the depth",
                      f"{mod.relpath}: the force depends on `{sym}` other "
                      "than through (contact_point - delta): shifting "
                      "abscissa and contact point together changes the "
                      "force")
        # baseline additive
        fb = me.ret_on - RF.sym("baseline")
        ctx.check(not fb.mentions("baseline"), fn,
                  f"{name}: baseline enters once, additively",
                  f"{mod.relpath}: the baseline does not enter additively "
                  "in contact")
        # continuity at contact: F_on - baseline -> 0 as depth -> 0
        dr = fb.degree_range("delta_c")
        ctx.check(dr is not None and dr[0] > 0, fn,
                  f"{name}: every contact term has positive depth degree",
                  f"{mod.relpath}: the contact branch does not vanish at "
                  "zero depth (force is discontinuous at the contact "
                  "point)")


def r3_series_coefficients(ctx):
    mod = ctx.repo.mod("model.model_sneddon_spherical_approximation")
    fn = facts.model_func(mod)
    me, why = _evaluate(mod)
    if me is None:
        raise Undecided("sphere series model not evaluable")
    f = me.ret_on - RF.sym("baseline")
    # F = 4/3 E/(1-nu^2) sqrt(R) d^(3/2) sum c_k (d/R)^k
    pre = (RF.const(Fraction(4, 3)) * RF.sym("E") /
           (RF.const(1) - RF.sym("nu").pow(Fraction(2)))
           * RF.sym("R").pow(Fraction(1, 2))
           * RF.sym("delta_c").pow(Fraction(3, 2)))
    one_minus_nu2 = RF.const(1) - RF.sym("nu").pow(Fraction(2))
    scale = None
    for c in (Fraction(1), Fraction(-1)):
        if RF(dict(f.den)) == one_minus_nu2 * RF.const(c):
            scale = c
    if scale is None:
        raise Undecided("series model: denominator is not (1 - nu^2)")
    coeffs = {}
    for m, c in f.num.items():
        d = dict(m)
        k = d.get("delta_c", Fraction(0)) - Fraction(3, 2)
        r_ = d.get("R", Fraction(0)) - Fraction(1, 2)
        rest = {a_: e for a_, e in d.items() if a_ not in ("delta_c", "R")}
        if rest != {"E": Fraction(1)} or k != -r_ or k.denominator != 1 \
                or k < 0:
            raise Undecided(f"unexpected series term {m}")
        coeffs[int(k)] = c / scale / Fraction(4, 3)
    exact = sneddon_sphere_coefficients(max(coeffs) + 1 if coeffs else 5)
    ctx.floor("series terms", len(coeffs), 5)
    for k in sorted(coeffs):
        ctx.check(coeffs[k] == exact[k], fn,
                  f"series coefficient of (delta/R)^{k} = {coeffs[k]}",
                  f"coefficient of (delta/R)^{k} is {coeffs[k]} but the "
                  f"Taylor expansion of Sneddon's sphere solution gives "
                  f"{exact[k]}")


def homogeneity_degrees(ctx):
    """(shared with C11-R3 / C13) depth- and modulus-degree of the
    power-law models"""
    for mod in facts.model_modules(ctx.repo):
        key = literal(mod.assign("model_key"))
        fn = facts.model_func(mod)
        me, why = _evaluate(mod)
        if me is None:
            ctx.fail(fn, f"{key}: not a closed-form elementwise expression",
                     "model is not evaluated elementwise")
            continue
        f = me.ret_on - RF.sym("baseline")
        if key in POWER_LAW_DEGREE:
            dr = f.degree_range("delta_c")
            p = POWER_LAW_DEGREE[key]
            ctx.check(dr == (p, p), fn, f"{key}: depth degree {dr}",
                      f"model '{key}' is not homogeneous of degree {p} in "
                      f"the indentation depth (found {dr}): E_k = E_1 "
                      f"k^-{p} no longer holds")
            de = f.degree_range("E")
            ctx.check(de == (1, 1), fn, f"{key}: modulus degree {de}",
                      f"model '{key}' is not linear in E")
        # joint linearity in all moduli (C13)
        lam = RF.sym("lam__")
        mapping = {m: RF.sym(m) * lam for m in MODULI
                   if f.mentions(m)}
        if mapping:
            try:
                scaled = f.subs(mapping)
                ctx.check(scaled == f * lam, fn,
                          f"{key}: force - baseline scales linearly with "
                          f"{sorted(mapping)}",
                          f"model '{key}': force minus baseline is not "
                          "homogeneous of degree 1 in the moduli")
            except Undecided:
                ctx.note(f"{key}: joint linearity not decided (moduli inside "
                         "an opaque power)")


def r4_registry_wrappers(ctx):
    """`models_available[key].model(params, delta)` is how fits, plots and
    the rating evaluate a shipped model (shared with C13-R1/R4)"""
    from .. import fitclauses
    from .c13 import r1_direction_wrapper
    fitclauses.clause_default_wrappers(ctx)
    r1_direction_wrapper(ctx)


# ---------------------------------------------------------------------------
# R5: scalar arithmetic is defined on the closed parameter box

_INF = float("inf")


def _param_box(mod):
    """{name: (min, max)} from the params.add(...) calls of
    get_parameter_defaults (missing bound = unbounded)"""
    fn = mod.funcs.get("get_parameter_defaults")
    if fn is None:
        raise AnchorError(f"{mod.relpath}: get_parameter_defaults missing")
    box = {}
    for c in ast.walk(fn):
        if isinstance(c, ast.Call) and isinstance(c.func, ast.Attribute) \
                and c.func.attr == "add" and c.args:
            name = const_str(c.args[0])
            if name is None:
                continue
            lo, hi = -_INF, _INF
            for k in c.keywords:
                if k.arg in ("min", "max"):
                    try:
                        v = float(literal(k.value))
                    except Exception:
                        v = None
                    if v is not None:
                        if k.arg == "min":
                            lo = v
                        else:
                            hi = v
            box[name] = (lo, hi)
    return box


def _imul(a, b):
    ps = []
    for x in a:
        for y in b:
            if (x == 0 and abs(y) == _INF) or (y == 0 and abs(x) == _INF):
                ps.append(0.0)
            else:
                ps.append(x * y)
    return (min(ps), max(ps))


def _interval(e, env):
    """interval of a scalar expression, or None when unknown"""
    import math
    if isinstance(e, ast.Constant) and isinstance(e.value, (int, float)) \
            and not isinstance(e.value, bool):
        return (float(e.value), float(e.value))
    if isinstance(e, ast.Name):
        return env.get(e.id)
    if isinstance(e, ast.Attribute) and norm(e) in ("np.pi", "math.pi",
                                                    "numpy.pi"):
        return (math.pi, math.pi)
    if isinstance(e, ast.Name) and e.id == "pi":
        return (math.pi, math.pi)
    if isinstance(e, ast.UnaryOp) and isinstance(e.op, (ast.USub, ast.UAdd)):
        v = _interval(e.operand, env)
        if v is None:
            return None
        return (-v[1], -v[0]) if isinstance(e.op, ast.USub) else v
    if isinstance(e, ast.BinOp):
        a, b = _interval(e.left, env), _interval(e.right, env)
        if isinstance(e.op, ast.Pow) and a is not None and isinstance(
                e.right, ast.Constant) and isinstance(
                e.right.value, (int, float)):
            n = e.right.value
            if n == int(n) and n >= 0 and int(n) % 2 == 0:
                lo = 0.0 if a[0] <= 0 <= a[1] else min(abs(a[0]),
                                                       abs(a[1])) ** n
                return (lo, max(abs(a[0]), abs(a[1])) ** n)
            if n >= 0 and a[0] >= 0:
                return (a[0] ** n, a[1] ** n)
            return None
        if a is None or b is None:
            return None
        if isinstance(e.op, ast.Add):
            return (a[0] + b[0], a[1] + b[1])
        if isinstance(e.op, ast.Sub):
            return (a[0] - b[1], a[1] - b[0])
        if isinstance(e.op, ast.Mult):
            return _imul(a, b)
        if isinstance(e.op, ast.Div):
            if b[0] <= 0 <= b[1]:
                return None
            return _imul(a, (1 / b[1], 1 / b[0]))
        return None
    if isinstance(e, ast.Call) and call_name(e) in ("np.sqrt", "math.sqrt") \
            and len(e.args) == 1:
        a = _interval(e.args[0], env)
        if a is None or a[0] < 0:
            return None
        return (a[0] ** .5, a[1] ** .5)
    return None


def _doc_singular(fdoc):
    """symbols the documented formula itself divides by"""
    out = set()
    for mono in fdoc.num:
        for k, e in mono:
            if e < 0:
                out |= set(re.findall(r"[A-Za-z_][A-Za-z_0-9]*", str(k)))
    if not (len(fdoc.den) == 1 and all(not m for m in fdoc.den)):
        for mono in fdoc.den:
            for k, e in mono:
                out |= set(re.findall(r"[A-Za-z_][A-Za-z_0-9]*", str(k)))
    return out


def r5_defined_on_the_box(ctx):
    """`valuesdict()` hands Python floats to the model function: a scalar
    division (or negative power) whose denominator can be zero for a
    parameter vector inside the declared bounds raises ZeroDivisionError
    instead of returning the documented value (array operands divide
    elementwise and do not raise).  Where the documented formula itself
    divides by that parameter there is no documented value to return."""
    mods = facts.model_modules(ctx.repo)
    n = 0
    for mod in mods:
        fn = facts.model_func(mod)
        box = _param_box(mod)
        try:
            singular = _doc_singular(doc_formula(mod, fn)[0])
        except Undecided:
            singular = set()
        params = [a.arg for a in fn.args.args]
        arrays = {params[0]}
        env = {p_: box.get(p_, (-_INF, _INF)) for p_ in params[1:]}

        def is_array(e):
            for x in ast.walk(e):
                if isinstance(x, ast.Name) and x.id in arrays:
                    return True
                if isinstance(x, ast.Call) and (call_name(x) or "") in (
                        "np.zeros_like", "np.ones_like", "np.zeros",
                        "np.array", "np.asarray", "np.arange",
                        "np.linspace"):
                    return True
            return False
        for st in ast.walk(fn):
            if isinstance(st, ast.Assign) and len(st.targets) == 1 and \
                    isinstance(st.targets[0], ast.Name):
                if is_array(st.value):
                    arrays.add(st.targets[0].id)
        for st in fn.body:
            for node in ast.walk(st):
                den = None
                if isinstance(node, ast.BinOp) and isinstance(
                        node.op, ast.Div):
                    if is_array(node.left) or is_array(node.right):
                        continue
                    den = node.right
                elif isinstance(node, ast.BinOp) and isinstance(
                        node.op, ast.Pow) and not is_array(node.left):
                    ex = _interval(node.right, env)
                    if ex is not None and ex[1] < 0:
                        den = node.left
                if den is None:
                    continue
                n += 1
                iv = _interval(den, env)
                names = sorted({x.id for x in ast.walk(den)
                                if isinstance(x, ast.Name) and x.id in box})
                if iv is None:
                    # unknown shape: decide only for a bare product of
                    # parameters, otherwise say so
                    if not names:
                        ctx.ok(node, f"{mod.name.split('.')[-1]}: "
                               f"denominator {norm(den)[:40]} has no "
                               "parameter")
                        continue
                    raise Undecided(f"{mod.relpath}: cannot bound the scalar "
                                    f"denominator {norm(den)[:50]}")
                if iv[0] <= 0 <= iv[1] and names and set(names) <= singular:
                    ctx.ok(node, f"{mod.name.split('.')[-1]}: the documented "
                           f"formula divides by {', '.join(names)} as well")
                    continue
                ctx.check(not (iv[0] <= 0 <= iv[1]), node,
                          f"{mod.name.split('.')[-1]}: scalar denominator "
                          f"{norm(den)[:40]} in [{iv[0]:g}, {iv[1]:g}]",
                          f"{mod.relpath}: the scalar expression "
                          f"`{norm(node)[:60]}` divides by `{norm(den)[:40]}`"
                          f", which is zero for a parameter vector inside "
                          f"the declared bounds ({', '.join(names)}): the "
                          "model raises ZeroDivisionError there instead of "
                          "returning the documented force")
            if isinstance(st, ast.Assign) and len(st.targets) == 1 and \
                    isinstance(st.targets[0], ast.Name) and \
                    st.targets[0].id not in arrays:
                env[st.targets[0].id] = _interval(st.value, env)
    ctx.floor("scalar divisions in shipped models", n, 5)


def r6_parameters_used_as_given(ctx):
    """a scalar parameter is not clamped to a range narrower than its
    declared bounds before it enters the formula: `p = max(p, c)` with
    c above the declared minimum (or `min(p, c)` below the declared
    maximum, or np.clip likewise) replaces in-bounds values, for which the
    model then evaluates the documented formula at another parameter"""
    n = 0
    for mod in facts.model_modules(ctx.repo):
        fn = facts.model_func(mod)
        box = _param_box(mod)
        params = [a.arg for a in fn.args.args][1:]
        ctx.analysed(fn)
        n += len(params)
        for st in walk_no_nested(fn, False):
            if not (isinstance(st, ast.Assign) and len(st.targets) == 1
                    and isinstance(st.targets[0], ast.Name)
                    and isinstance(st.value, ast.Call)):
                continue
            c = st.value
            short = (dotted(c.func) or "").split(".")[-1]
            if short not in ("max", "min", "maximum", "minimum", "clip",
                             "fmax", "fmin"):
                continue
            ps = [a.id for a in c.args if isinstance(a, ast.Name)
                  and a.id in params]
            if len(ps) != 1 or st.targets[0].id != ps[0]:
                continue
            lo, hi = box.get(ps[0], (-_INF, _INF))
            consts = []
            for a in c.args:
                if isinstance(a, ast.Name) and a.id == ps[0]:
                    consts.append(None)
                    continue
                try:
                    consts.append(float(literal(a)))
                except Exception:
                    consts = None
                    break
            if not consts:
                continue
            floor_ = ceil_ = None
            if short in ("max", "maximum", "fmax"):
                floor_ = max(x for x in consts if x is not None)
            elif short in ("min", "minimum", "fmin"):
                ceil_ = min(x for x in consts if x is not None)
            elif len(consts) == 3 and consts[0] is None:
                floor_, ceil_ = consts[1], consts[2]
            active = (floor_ is not None and floor_ > lo) or \
                (ceil_ is not None and ceil_ < hi)
            ctx.check(not active, st,
                      f"{mod.name}: `{norm(st)[:50]}` inside the bounds "
                      f"[{lo}, {hi}] of {ps[0]}",
                      f"{mod.relpath}: `{norm(st)[:60]}` replaces values of "
                      f"'{ps[0]}' inside its declared bounds [{lo}, {hi}]: "
                      "for those the model evaluates the documented formula "
                      "at a different parameter value")
    ctx.floor("scalar model parameters examined", n, 20)


RULES = [
    ("C02-R1", "contact branch equals the documented formula exactly",
     r1_formula_agreement),
    ("C02-R2", "off contact exactly the baseline; elementwise mask on "
     "(contact_point - delta) > 0; additive baseline; continuity",
     r2_off_contact),
    ("C02-R3", "truncated-series coefficients equal Sneddon's Taylor "
     "coefficients (exact series reversion)", r3_series_coefficients),
    ("C02-R4", "the registry evaluates a shipped model through stateless "
     "default wrappers that hand every parameter value to the model "
     "function", r4_registry_wrappers),
    ("C02-R5", "scalar prefactors are defined for every parameter vector "
     "inside the declared bounds", r5_defined_on_the_box),
    ("C02-R6", "no scalar parameter is clamped to a range narrower than "
     "its declared bounds before the formula", r6_parameters_used_as_given),
]
