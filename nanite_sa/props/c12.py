"""C12 — the fit hash identifies data plus effective settings,
deterministically."""
from __future__ import annotations

import ast

from .. import effects, facts, fitrules
from ..astutil import (call_name, calls_in, const_str, dotted, literal, norm,
                       walk_no_nested)
from ..callgraph import CallGraph
from ..cfg import CFG
from ..guards import conditions_at
from ..loader import AnchorError, Undecided
from .c03 import settings_mutations

EXPLANATION = (
    "Shape of the hash computation, decided for all settings values: (R1) "
    "_hash feeds both axes, both preprocessing entries and self.fp[key] for "
    "every key of FP_DEFAULT (re-read each run) into the digest; the only "
    "conditional omissions are the two documented don't-cares under their "
    "guards; the hash is taken after the last settings write of the "
    "constructor; (R2) the byte encoder has a branch for every value type "
    "of the settings, is representation-blind (tuple->list, numbers->float, "
    "dict->sorted items), encodes all five parameter attributes, and "
    "rejects unknown types; segment names are normalised before storing; "
    "no branch encodes a mapping in iteration order (every .items()/"
    ".values()/.keys() of the argument sits under sorted()); "
    "(R3) no hash()/id()/repr()/set-order/clock/RNG in the call graph of "
    "_hash and iteration over the settings is in definition or sorted "
    "order; (R4) sequence encodings are self-delimiting; (R5) hashed "
    "settings objects are not edited after hashing; (R6) the partial hash "
    "of range_x under the plateau search keys on the same bound the fit "
    "uses; (R7) the stored fit_properties['hash'] is dropped whenever a "
    "setting changes: every path of FitProperties.__setitem__ that stores "
    "a settings key passes reset() or carries an exact-equality fact of "
    "stored and new value.")
NOT_DECIDED = [
    "that different byte strings give different MD5 digests",
    "numpy integer scalars (not int subclasses) reach the encoder's "
    "ValueError branch - whether callers pass them is a runtime question",
]

DONT_CARE = {
    # key: (what may be hashed instead / omitted, guard polarity of
    #       self.fp['optimal_fit_edelta'])
    "range_x": ("upper bound only", True),
    "optimal_fit_num_samples": ("omitted", False),
}
EDELTA = "self.fp['optimal_fit_edelta']"


def _eval3(test, key):
    """Kleene evaluation of a test with `key` fixed: True/False/None."""
    if isinstance(test, ast.BoolOp):
        vals = [_eval3(v, key) for v in test.values]
        if isinstance(test.op, ast.And):
            if any(v is False for v in vals):
                return False
            return True if all(v is True for v in vals) else None
        if any(v is True for v in vals):
            return True
        return False if all(v is False for v in vals) else None
    if isinstance(test, ast.UnaryOp) and isinstance(test.op, ast.Not):
        v = _eval3(test.operand, key)
        return None if v is None else (not v)
    if isinstance(test, ast.Compare) and len(test.ops) == 1:
        l, r = test.left, test.comparators[0]
        if isinstance(l, ast.Name) and l.id == "key":
            lit = literal(r)
            if isinstance(test.ops[0], ast.Eq) and isinstance(lit, str):
                return key == lit
            if isinstance(test.ops[0], ast.NotEq) and isinstance(lit, str):
                return key != lit
            if isinstance(test.ops[0], ast.In) and isinstance(
                    lit, (list, tuple, set)):
                return key in lit
            if isinstance(test.ops[0], ast.NotIn) and isinstance(
                    lit, (list, tuple, set)):
                return key not in lit
    return None


def _residual(test, key, pol):
    """atoms (text, pol) of the non-key part of a test known to be `pol`"""
    out = []
    if isinstance(test, ast.BoolOp):
        conj = (isinstance(test.op, ast.And) and pol) or (
            isinstance(test.op, ast.Or) and not pol)
        if conj:
            for v in test.values:
                if _eval3(v, key) is None:
                    out.extend(_residual(v, key, pol))
            return out
        # disjunction known true / conjunction known false: keep operands
        # that are still undetermined as one alternative set
        und = [v for v in test.values if _eval3(v, key) is None]
        if len(und) == 1:
            return _residual(und[0], key, pol)
        return [(norm(test), pol)]
    if isinstance(test, ast.UnaryOp) and isinstance(test.op, ast.Not):
        return _residual(test.operand, key, not pol)
    return [(norm(test), pol)]


def _leaves(stmts, conds, listvar):
    """[(conds, [appended exprs])] for an if-structured loop body; a
    `continue` ends the path."""
    paths = [(list(conds), [], False)]

    def step(paths, st):
        out = []
        for c, acts, done in paths:
            if done:
                out.append((c, acts, True))
                continue
            if isinstance(st, ast.If):
                for body, pol in ((st.body, True), (st.orelse, False)):
                    sub = [(c + [(st.test, pol)], list(acts), False)]
                    for s2 in body:
                        sub = step(sub, s2)
                    out.extend(sub)
            elif isinstance(st, ast.Pass):
                out.append((c, acts, False))
            elif isinstance(st, ast.Continue):
                out.append((c, acts, True))
            elif isinstance(st, ast.Expr) and isinstance(
                    st.value, ast.Call) and call_name(st.value) == \
                    f"{listvar}.append" and len(st.value.args) == 1:
                out.append((c, acts + [st.value.args[0]], False))
            elif isinstance(st, ast.Expr) and isinstance(
                    st.value, ast.Constant):
                out.append((c, acts, False))
            else:
                raise Undecided("unrecognised statement in the settings "
                                f"loop of _hash: {norm(st)[:60]}")
        return out

    for st in stmts:
        paths = step(paths, st)
    return [(c, acts) for c, acts, _ in paths]


def r1_coverage(ctx):
    fitm = ctx.repo.mod("fit")
    fn = fitm.func("IndentationFitter._hash")
    ctx.analysed(fn)
    dflt = facts.fp_default(ctx.repo)
    # the digest call and the hashed list
    dig = [c for c in calls_in(fn) if (call_name(c) or "").startswith(
        "hashlib.")]
    if not dig:
        raise AnchorError("_hash no longer calls hashlib")
    inner = [c for c in calls_in(fn) if call_name(c) == "obj2bytes"]
    if not inner or not isinstance(inner[0].args[0], ast.Name):
        raise Undecided("_hash does not feed obj2bytes(<list name>) to the "
                        "digest")
    listvar = inner[0].args[0].id
    chunkwise = None
    # entry-wise form: chunks = [obj2bytes(e) for e in L]; for c in chunks:
    # hasher.update(<length prefix> + c) - the digest of the same bytes
    # that obj2bytes(L) yields for a list
    for st in fn.body:
        if isinstance(st, ast.Assign) and isinstance(
                st.value, ast.ListComp) and st.value.elt is inner[0] and \
                len(st.value.generators) == 1 and norm(
                    st.value.generators[0].target) == listvar and \
                not st.value.generators[0].ifs and isinstance(
                    st.value.generators[0].iter, ast.Name) and isinstance(
                    st.targets[0], ast.Name):
            chunks = st.targets[0].id
            fed = [lp for lp in fn.body if isinstance(lp, ast.For)
                   and norm(lp.iter) == chunks and len(lp.body) == 1
                   and isinstance(lp.body[0], ast.Expr)
                   and isinstance(lp.body[0].value, ast.Call)
                   and isinstance(lp.body[0].value.func, ast.Attribute)
                   and lp.body[0].value.func.attr == "update"
                   and norm(lp.target) in norm(lp.body[0].value)]
            if fed:
                listvar = st.value.generators[0].iter.id
                chunkwise = fed[0]
    # `hashlist = items` (the list was built under another name)
    for _ in range(3):
        def src_(v):
            if isinstance(v, ast.Call) and call_name(v) in (
                    "list", "tuple", "copy.copy") and len(v.args) == 1 and \
                    not v.keywords:
                v = v.args[0]
            return v
        al = [src_(st.value).id for st in fn.body
              if isinstance(st, ast.Assign)
              and norm(st.targets[0]) == listvar
              and isinstance(src_(st.value), ast.Name)]
        if len(al) == 1:
            listvar = al[0]
        else:
            break
    ctx.check(chunkwise is not None or any(
        inner[0] in list(ast.walk(d)) for d in dig), dig[0],
              f"digest of obj2bytes({listvar})",
              "the digest is not computed from the encoded settings list")
    # direct appends outside the settings loop
    loops = [n for n in fn.body if isinstance(n, ast.For)]
    if not any("FP_DEFAULT" in norm(lp.iter) for lp in loops) and any(
            isinstance(g, ast.comprehension) and "FP_DEFAULT" in norm(g.iter)
            for g in ast.walk(fn)):
        raise Undecided("_hash builds the hashed list from a comprehension "
                        "over FP_DEFAULT whose parts are not plain lists")
    direct = []
    for st in fn.body:
        if isinstance(st, ast.Expr) and isinstance(st.value, ast.Call) and \
                call_name(st.value) == f"{listvar}.append":
            direct.append(norm(st.value.args[0]))
        if isinstance(st, ast.Assign) and norm(st.targets[0]) == listvar \
                and isinstance(st.value, ast.List):
            direct.extend(norm(e) for e in st.value.elts)
        if isinstance(st, ast.AugAssign) and norm(st.target) == listvar \
                and isinstance(st.value, ast.List):
            direct.extend(norm(e) for e in st.value.elts)
    for want, why in (("self.x_axis", "abscissa data"),
                      ("self.y_axis", "ordinate data"),
                      ("self.fp['preprocessing']", "preprocessing steps"),
                      ("self.fp['preprocessing_options']",
                       "preprocessing options")):
        covered = want in direct
        ctx.check(covered or (want.startswith("self.fp[")
                              and want[9:-2] in dflt and loops),
                  fn, f"hash covers {want}",
                  f"{why} ({want}) are not part of the hash: changing them "
                  "leaves the hash unchanged")
    # the axes are the curve's columns named by the settings
    init = fitm.func("IndentationFitter.__init__")
    for ax in ("x_axis", "y_axis"):
        ok = any(isinstance(st, ast.Assign) and dotted(st.targets[0]) ==
                 f"self.{ax}" and norm(st.value) ==
                 f"idnt[self.fp['{ax}']]"
                 for st in walk_no_nested(init, False))
        ctx.check(ok, init, f"self.{ax} = idnt[self.fp['{ax}']]",
                  f"the hashed self.{ax} is not the curve column selected "
                  f"by the '{ax}' setting")
    # the loop over the settings
    sl = [lp for lp in loops if "FP_DEFAULT" in norm(lp.iter)]
    if not sl and any(isinstance(g, ast.comprehension) and "FP_DEFAULT"
                      in norm(g.iter) for g in ast.walk(fn)):
        raise Undecided("_hash iterates over FP_DEFAULT in a comprehension "
                        "whose element is not a plain setting read")
    if not sl:
        ctx.fail(fn, "loop over FP_DEFAULT in _hash",
                 "_hash no longer iterates over every key of FP_DEFAULT")
        return
    lp = sl[0]
    it = norm(lp.iter)
    if isinstance(lp.iter, (ast.GeneratorExp, ast.ListComp, ast.Call)) and \
            it not in ("FP_DEFAULT.keys()", "sorted(FP_DEFAULT)",
                       "sorted(FP_DEFAULT.keys())", "list(FP_DEFAULT)",
                       "list(FP_DEFAULT.keys())") and not any(
                isinstance(c_, ast.Call) and call_name(c_) in (
                    "set", "frozenset") for c_ in ast.walk(lp.iter)) and \
            not any(isinstance(c_, (ast.Set, ast.SetComp))
                    for c_ in ast.walk(lp.iter)):
        raise Undecided("_hash iterates over values derived from FP_DEFAULT "
                        f"(`{it[:60]}`): which value enters per setting is "
                        "not understood")
    ctx.check(it in ("FP_DEFAULT", "FP_DEFAULT.keys()", "sorted(FP_DEFAULT)",
                     "sorted(FP_DEFAULT.keys())", "list(FP_DEFAULT)",
                     "list(FP_DEFAULT.keys())"), lp,
              f"settings iterated as {it}",
              f"_hash iterates the settings as `{it}`: not every key in a "
              "reproducible order (set order depends on PYTHONHASHSEED)")
    if not (isinstance(lp.target, ast.Name) and lp.target.id == "key"):
        raise Undecided("settings loop variable is not `key`")
    from ..symres import Resolver as _Res
    res_ = _Res(fn, keep=("key",))
    leaves = [([(res_.resolve(t), pol) for t, pol in conds], acts)
              for conds, acts in _leaves(lp.body, [], listvar)]
    for K in dflt:
        applicable = []
        for conds, acts in leaves:
            val = True
            resid = []
            for test, pol in conds:
                v = _eval3(test, K)
                if v is None:
                    resid.extend(_residual(test, K, pol))
                elif v != pol:
                    val = False
                    break
            if val:
                applicable.append((resid, acts))
        if not applicable:
            ctx.fail(lp, f"setting '{K}' in hash",
                     f"no branch of the settings loop applies to '{K}'")
            continue
        ok = True
        msg = ""
        for resid, acts in applicable:
            texts = [norm(a) for a in acts]
            full = any(t in ("self.fp[key]", f"self.fp['{K}']")
                       for t in texts)
            if full:
                continue
            if K in DONT_CARE:
                what, pol = DONT_CARE[K]
                guard_ok = (EDELTA, pol) in resid
                if K == "range_x":
                    partial = any(t in ("max(self.fp['range_x'])",
                                        "np.max(self.fp['range_x'])",
                                        "self.fp['range_x'][1]")
                                  for t in texts)
                    if partial and guard_ok:
                        continue
                    msg = (f"'{K}' is hashed as {texts or 'nothing'} under "
                           f"{resid}; only the upper bound under plateau "
                           "search is a documented don't-care")
                else:
                    if not texts and guard_ok:
                        continue
                    msg = (f"'{K}' is hashed as {texts or 'nothing'} under "
                           f"{resid}; it may be omitted only while the "
                           "plateau search is off")
            else:
                msg = (f"setting '{K}' is not hashed"
                       + (f" when {resid}" if resid else "")
                       + f" (hashed: {texts or 'nothing'}): changing it "
                       "leaves the hash unchanged")
            ok = False
        ctx.check(ok, lp, f"setting '{K}' in hash", msg)
    # hash taken after the last settings write in __init__
    cfg = CFG(init)
    hn = [n for n in cfg.nodes if n.kind == "stmt" and any(
        call_name(c) == "self._hash" for c in fitrules.node_calls(n))]
    if not hn:
        ctx.fail(init, "self._hash() in __init__",
                 "the fitter no longer computes its hash on construction")
        return
    later = cfg.reach([hn[0].id], skip_labels=("exc",))
    for u in facts.fp_key_uses(init):
        if u.kind in ("write", "update") and u.key != "hash":
            n = cfg.node_containing(u.node)
            if n is not None and n.id in later:
                ctx.fail(u.node, f"settings write {norm(u.node)} after hash",
                         "a setting is written after the hash was taken")
    stored = [st for st in walk_no_nested(init, False)
              if isinstance(st, ast.Assign)
              and norm(st.targets[0]) == "self.fp['hash']"]
    ctx.check(bool(stored) and all(norm(s.value) in ("self.hash",
                                                     "self._hash()")
                                   for s in stored), init,
              "self.fp['hash'] = self.hash",
              "the hash stored with the results is not the computed hash")


TYPE_BRANCHES = {
    "str": "text settings (model key, axes, method)",
    "bool": "flags", "int": "segment, sample count", "float": "weights, k",
    "np.ndarray": "axis data", "tuple": "range given as tuple",
    "list": "range, steps", "dict": "options, method_kws, Parameters",
    "lmfit.parameter.Parameter": "fit parameters",
}


def _lossless_number(v, arg):
    """True: the expression keeps every bit of float(arg) (str/repr/hex/
    struct.pack('d')); False: a formatting with limited digits; None:
    unknown"""
    fl = f"float({arg})"
    e = v
    if isinstance(e, ast.Call) and isinstance(e.func, ast.Attribute) and \
            e.func.attr == "encode":
        e = e.func.value
    t = norm(e)
    if t in (f"str({fl})", f"repr({fl})", f"{fl}.hex()", f"{fl}.__repr__()"):
        return True
    if isinstance(e, ast.Call) and (call_name(e) or "") == "struct.pack" \
            and e.args and isinstance(e.args[0], ast.Constant) and \
            str(e.args[0].value).lstrip("<>=!@") in ("d",):
        return True
    if isinstance(e, ast.JoinedStr):
        fv = [x for x in e.values if isinstance(x, ast.FormattedValue)]
        if len(fv) == 1 and norm(fv[0].value) == fl:
            if fv[0].format_spec is None:
                return fv[0].conversion in (-1, 114, 115)
            spec = norm(fv[0].format_spec).strip("'\"f")
            return spec in ("", "r", ".17g", ".17e") or False
        return None
    if isinstance(e, ast.Call) and isinstance(e.func, ast.Attribute) and \
            e.func.attr == "format":
        return False if fl in norm(e) else None
    if isinstance(e, ast.BinOp) and isinstance(e.op, ast.Mod):
        return False if fl in norm(e) else None
    if isinstance(e, ast.Call) and (call_name(e) or "") in (
            "round", "np.round", "np.float32", "int"):
        return False
    return None


def encoder_chain(fn):
    """[(test, body)..., (None, else-body)] of an if/elif/else chain or of
    the equivalent sequence of `if <test>: ...return` statements followed
    by the fall-through statements"""
    from ..guards import always_leaves
    body = [s for s in fn.body if not (isinstance(s, ast.Expr)
                                       and isinstance(s.value, ast.Constant))]
    chain = []
    i = 0
    while i < len(body) and not isinstance(body[i], ast.If):
        i += 1
    if i == len(body):
        raise Undecided("obj2bytes is not an if/elif chain")
    while i < len(body) and isinstance(body[i], ast.If):
        cur = body[i]
        while isinstance(cur, ast.If):
            chain.append((cur.test, cur.body))
            if len(cur.orelse) == 1 and isinstance(cur.orelse[0], ast.If):
                cur = cur.orelse[0]
            elif cur.orelse:
                chain.append((None, cur.orelse))
                return chain
            else:
                break
        if not always_leaves(body[i].body):
            raise Undecided("obj2bytes: a branch falls through")
        i += 1
    chain.append((None, body[i:]))
    return chain


def r2_encoder(ctx):
    fitm = ctx.repo.mod("fit")
    fn = fitm.func("obj2bytes")
    ctx.analysed(fn)
    arg = fn.args.args[0].arg
    branches = {}
    none_branch = None
    node = None
    chain = encoder_chain(fn)
    order = []
    for test, body in chain:
        if test is None:
            branches["else"] = body
            continue
        if isinstance(test, ast.Call) and call_name(test) == "isinstance" \
                and norm(test.args[0]) == arg:
            ts = test.args[1]
            names = [norm(e) for e in ts.elts] if isinstance(
                ts, ast.Tuple) else [norm(ts)]
            for nm in names:
                branches[nm] = body
                order.append(nm)
        elif norm(test) == f"{arg} is None":
            branches["None"] = body
            order.append("None")
        else:
            raise Undecided(f"unrecognised encoder test {norm(test)}")
    for t, why in TYPE_BRANCHES.items():
        alt = {"lmfit.parameter.Parameter": ["lmfit.Parameter",
                                             "Parameter"]}.get(t, [])
        ctx.check(t in branches or any(a in branches for a in alt), fn,
                  f"encoder branch for {t}",
                  f"obj2bytes has no branch for {t} ({why}): hashing such a "
                  "setting raises or falls into another representation")
    ctx.check("None" in branches, fn, "encoder branch for None",
              "None settings (params_initial) cannot be encoded")

    def ret(body):
        r = [s for s in body if isinstance(s, ast.Return)]
        return r[-1].value if r else None
    # numbers: via float
    for t in ("bool", "int", "float"):
        if t in branches:
            v = ret(branches[t])
            ok = v is not None and f"float({arg})" in norm(v)
            ctx.check(ok, v or fn, f"{t} encoded through float()",
                      f"{t} values are not encoded through float(): 1, 1.0 "
                      "and True would hash differently")
            if ok:
                loss = _lossless_number(v, arg)
                if loss is None:
                    raise Undecided(f"number encoding {norm(v)[:60]} not "
                                    "recognised")
                ctx.check(loss, v, f"{t}: lossless text of the float",
                          f"numbers are encoded as `{norm(v)[:60]}`, which "
                          "keeps only part of the digits: two settings "
                          "that differ beyond them get the same hash")
    # bool must be tested together with / before int (bool is an int) - any
    # order works because all go through float
    if "tuple" in branches:
        v = ret(branches["tuple"])
        ok = (v is not None and norm(v) == f"obj2bytes(list({arg}))") or \
            branches["tuple"] is branches.get("list")
        ctx.check(ok, v or fn, "tuple encoded as list",
                  "tuples are not encoded as the equal list")
    # numbers inside a sequence take the path of scalar numbers (one
    # representation for 1, 1.0 and True): the sequence is never converted
    # as a whole, whose element type would be inferred from its entries
    for nm in ("list", "tuple"):
        for st in branches.get(nm, []):
            for c in ast.walk(st):
                if isinstance(c, ast.Call) and (call_name(c) or "") in (
                        "np.array", "np.asarray", "np.asanyarray",
                        "numpy.array", "numpy.asarray", "bytes", "bytearray",
                        "np.fromiter", "array.array") and any(
                        isinstance(a, ast.Name) and a.id == arg
                        for a in c.args):
                    ctx.fail(c, f"{nm} branch encodes entry by entry",
                             f"the {nm} branch of obj2bytes converts the "
                             f"whole sequence with `{norm(c)[:50]}`: the "
                             "element type is inferred from the entries "
                             "(int64 for [-1, 1], float64 for [-1.0, 1.0]), "
                             "equal settings written with ints and with "
                             "floats hash differently")
    if "dict" in branches:
        v = ret(branches["dict"])
        ok = v is not None and norm(v) in (
            f"obj2bytes(sorted({arg}.items()))",
            f"obj2bytes(sorted(list({arg}.items())))")
        ctx.check(ok, v or fn, "dict encoded as sorted items",
                  "dictionaries are not encoded as their sorted items: the "
                  "hash depends on insertion order or drops keys/values")
    # no branch may encode a mapping in iteration order
    for nm in order:
        if nm == "None":
            continue
        for st in branches[nm]:
            for c in ast.walk(st):
                if not (isinstance(c, ast.Call) and isinstance(
                        c.func, ast.Attribute) and c.func.attr in (
                        "values", "keys", "items")
                        and norm(c.func.value) == arg):
                    continue
                anc, srt = getattr(c, "_parent", None), False
                while anc is not None and anc is not st:
                    if isinstance(anc, ast.Call) and call_name(anc) == \
                            "sorted":
                        srt = True
                    anc = getattr(anc, "_parent", None)
                ctx.check(srt and c.func.attr == "items", c,
                          f"{nm} branch: mapping encoded as sorted items",
                          f"the {nm} branch of obj2bytes encodes "
                          f"{norm(c)} in iteration order (or without the "
                          f"keys): equal settings built in a different "
                          f"insertion order hash differently")
    pk = [k for k in branches if k.endswith("Parameter")]
    if pk:
        v = ret(branches[pk[0]])
        attrs = {n.attr for n in ast.walk(v) if isinstance(n, ast.Attribute)
                 and norm(n.value) == arg} if v is not None else set()
        missing = {"value", "min", "max", "vary", "expr"} - attrs
        full = v is not None and "__getstate__()" in norm(v) and \
            "[" not in norm(v).split("__getstate__()")[-1]
        ctx.check(not missing or full, v or fn,
                  "parameter encoding covers value/min/max/vary/expr",
                  f"the parameter encoding ignores {sorted(missing)}: "
                  "changing that attribute of an initial parameter leaves "
                  "the hash unchanged")
    if "np.ndarray" in branches:
        v = ret(branches["np.ndarray"])
        ctx.check(v is not None and norm(v) in (f"{arg}.tobytes()",
                                                f"{arg}.tostring()"),
                  v or fn, "arrays encoded by their bytes",
                  "array data are not encoded by value")
    if "str" in branches:
        v = ret(branches["str"])
        ctx.check(v is not None and norm(v).startswith(f"{arg}.encode("),
                  v or fn, "str encoded as utf-8 bytes",
                  "strings are not encoded by value")
    els = branches.get("else")
    ctx.check(bool(els) and any(isinstance(s, ast.Raise) for s in els), fn,
              "unknown types raise",
              "obj2bytes silently encodes unknown types (e.g. by repr/id)")
    # segment normalisation before storing
    si = fitm.func("FitProperties.__setitem__")
    norm_ok = {"approach": False, "retract": False}
    for st in walk_no_nested(si, False):
        if isinstance(st, ast.Assign) and norm(st.targets[0]) == \
                si.args.args[2].arg and isinstance(st.value, ast.Constant):
            conds = conditions_at(st)
            tx = {(a.text, a.pol) for a in conds}
            k = si.args.args[1].arg
            v = si.args.args[2].arg
            if (f"{k} == 'segment'", True) in tx:
                if (f"{v} == 'approach'", True) in tx and st.value.value == 0:
                    norm_ok["approach"] = True
                if (f"{v} == 'retract'", True) in tx and st.value.value == 1:
                    norm_ok["retract"] = True
    for nm, ok in norm_ok.items():
        ctx.check(ok, si, f"segment name '{nm}' normalised to its index",
                  f"segment='{nm}' is stored as text: equal settings hash "
                  "differently (and the fitter rejects it)")


def r3_determinism(ctx):
    cg = CallGraph(ctx.repo)
    reach = cg.reachable([("fit", "IndentationFitter._hash")])
    ctx.floor("functions reachable from _hash", len(reach), 2)
    for key in sorted(reach):
        f = cg.func(key)
        ctx.analysed(f)
        bad = effects.ambient_reads(f) + effects.set_iteration(f)
        for c in calls_in(f, nested=True):
            if call_name(c) in ("repr", "str") and c.args and not (
                    isinstance(c.args[0], ast.Call)
                    and call_name(c.args[0]) in ("float", "len", "int")):
                bad.append((c, "text representation of an object"))
        for n in walk_no_nested(f, False):
            it = None
            if isinstance(n, (ast.For, ast.comprehension)):
                it = n.iter
            if it is not None and isinstance(it, ast.BinOp) and any(
                    isinstance(x, (ast.Set, ast.Call)) and (
                        isinstance(x, ast.Set)
                        or call_name(x) in ("set", "frozenset"))
                    for x in ast.walk(it)):
                bad.append((it, "iteration over a set expression"))
        for node, what in bad:
            ctx.fail(node, f"{norm(node)[:60]}",
                     f"{key[0]}.{key[1]} uses {what}: the hash is not a "
                     "pure function of values across processes/hash seeds")
        if not bad:
            ctx.ok(f, f"{key[1]}: no ambient or order-dependent input")


def r4_self_delimiting(ctx):
    fn = ctx.repo.mod("fit").func("obj2bytes")
    joins = [c for c in calls_in(fn, nested=True)
             if isinstance(c.func, ast.Attribute) and c.func.attr == "join"]
    lst = None
    for st in walk_no_nested(fn, False):
        if isinstance(st, ast.If) and "list" in norm(st.test) and \
                "isinstance" in norm(st.test):
            lst = st
    if lst is None:
        raise Undecided("no list branch in obj2bytes")
    js = [c for c in joins if any(c is x for b in lst.body
                                  for x in ast.walk(b))]
    if not js:
        raise Undecided("the list branch of obj2bytes does not join")
    for j in js:
        gen = j.args[0] if j.args else None
        # everything that flows into the joined iterable inside the list
        # branch: the argument itself and, transitively, the values of the
        # local names it mentions (comprehensions, appended items, zipped
        # or chained prefix/item sequences)
        feed = [gen] if gen is not None else []
        seen_names = set()
        work = list(feed)
        while work:
            e = work.pop()
            for nm in ast.walk(e):
                if isinstance(nm, ast.Name) and nm.id not in seen_names:
                    seen_names.add(nm.id)
                    for st in ast.walk(lst):
                        if isinstance(st, ast.Assign) and norm(
                                st.targets[0]) == nm.id:
                            feed.append(st.value)
                            work.append(st.value)
                        if isinstance(st, ast.Call) and isinstance(
                                st.func, ast.Attribute) and \
                                st.func.attr in ("append", "extend") and \
                                norm(st.func.value) == nm.id and st.args:
                            feed.append(st.args[0])
                            work.append(st.args[0])
        has_len = any(isinstance(x, ast.Call) and call_name(x) == "len"
                      for e in feed for x in ast.walk(e))
        ctx.check(has_len, j, "list items are length-prefixed",
                  "list items are concatenated without a length prefix: "
                  "different lists encode to the same bytes (e.g. "
                  "[1.0, 23.0] and [1.02, 3.0]) and share one hash")


def r5_frozen_after_hash(ctx):
    funcs = [f for m, q, f in ctx.repo.all_funcs()
             if m.name == "fit" and q.startswith("IndentationFitter.")]
    muts = settings_mutations(ctx.repo, funcs)
    for node, f, key, how in muts:
        ctx.fail(node, how,
                 f"{f._qualname} edits the hashed settings object "
                 f"'{key.split(':')[-1]}' after the hash was taken: the "
                 "stored hash no longer identifies the stored settings")
    if not muts:
        ctx.ok(ctx.repo.mod("fit").func("IndentationFitter._fit"),
               "hashed settings are not edited by the fitter")


def r7_stored_hash_invalidated(ctx):
    fitrules.setitem_invalidation(
        ctx, why=" (the stored fit_properties['hash'] keeps the value of "
        "the previous settings)")


def r6_upper_bound_agreement(ctx):
    from ..fitclauses import clause_upper_bound_agreement
    clause_upper_bound_agreement(ctx, "hash")


def r8_by_value(ctx):
    from .c03 import r8_settings_by_value
    r8_settings_by_value(ctx)


def r9_store_order(ctx):
    """the hashed settings are a function of the requested values, not of
    the order in which the request dictionary lists them: non-commuting
    settings (model_key resets params_initial; range_x is judged against
    the plateau switch) are stored in dependency order"""
    from ..fitclauses import clause_store_order
    clause_store_order(ctx)


RULES = [
    ("C12-R1", "hash covers axes, preprocessing and every settings key; "
     "only the documented don't-cares are conditional", r1_coverage),
    ("C12-R2", "encoder exhaustive and representation-blind; segment names "
     "normalised", r2_encoder),
    ("C12-R3", "no order/identity/ambient dependence in the hash call graph",
     r3_determinism),
    ("C12-R4", "sequence encoding is self-delimiting", r4_self_delimiting),
    ("C12-R5", "hashed settings are frozen after hashing",
     r5_frozen_after_hash),
    ("C12-R6", "the partial hash of range_x keys on the bound the fit uses",
     r6_upper_bound_agreement),
    ("C12-R7", "a changed setting drops the stored hash (reset or equality "
     "fact on every storing path)", r7_stored_hash_invalidated),
    ("C12-R8", "settings are stored by (deep) value: an in-place edit of a "
     "passed object cannot change a setting behind the hash", r8_by_value),
    ("C12-R9", "the settings that are hashed do not depend on the order in "
     "which a request lists them", r9_store_order),
]
