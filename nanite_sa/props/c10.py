"""C10 — arguments are taken by value: no mutation of, or aliasing to,
caller objects."""
from __future__ import annotations

import ast

from .. import effects, facts, fitrules
from ..astutil import (call_name, calls_in, const_str, dotted, func_params,
                       kwarg,
                       norm, walk_no_nested)
from ..loader import AnchorError, Undecided
from .c03 import settings_mutations

EXPLANATION = (
    "Alias/effect analysis of every function in the package: (R1) no "
    "in-place mutator (item/attribute store, augmented assignment, mutating "
    "method) is applied to a value that may alias a by-value parameter "
    "without an intervening copy barrier; (R2) a parameter-derived mutable "
    "stored into long-lived state (self.*, fit_properties, the rating "
    "cache) passes a copy barrier, either at the store or inside "
    "FitProperties.__setitem__ (checked to deep-copy every settings value "
    "on all storing paths); (R3) stored settings are handed out only as "
    "copies; (R4) stored settings objects are not edited in place by the "
    "library (the geometrical-correction scaling works on a private copy).")
NOT_DECIDED = [
    "mutation inside third-party callees (lmfit.minimize deep-copies its "
    "params: assumption A6; sklearn estimators copy X by default)",
    "equality of outcomes call(mutated same object) vs call(deepcopy) as "
    "numbers - only the aliasing that would make them differ is decided",
]
ASSUMPTIONS = [
    "A6: lmfit.minimize works on a deep copy of `params` "
    "(result.params = deepcopy(self.params))",
    "numpy arithmetic, np.array(copy=True), np.copy, np.zeros_like & co "
    "return fresh arrays; basic slicing, np.asarray, reshape return views",
]

# parameters that are caller *values* (one line of reason each); everything
# else (self, curve/group handles, modules, models, HDF5 objects, paths,
# callbacks) is a handle whose own state methods are allowed to change.
BY_VALUE = {
    "params_initial": "lmfit.Parameters passed by the user",
    "params": "lmfit.Parameters handed to model/residual functions",
    "preprocessing": "list of step identifiers",
    "identifiers": "list of step identifiers",
    "preproc_names": "list of step identifiers (deprecated alias)",
    "options": "dict of option dicts",
    "names": "list of feature names",
    "range_x": "fit interval",
    "method_kws": "keyword dict for the minimiser",
    "kwargs": "keyword arguments (values are caller objects)",
    "reg_kwargs": "keyword arguments for the regressor",
    "force": "force array", "delta": "indentation array",
    "tip_position": "array", "data": "array", "samples": "array",
    "training_set": "tuple of arrays", "X": "array", "y": "array",
    "emoduli": "array", "indentations": "array", "sample_weight": "array",
    "bsample": "array", "sample": "array", "which_type": "str or list",
    "props": "dict merged by FitProperties.restore",
    "cdict": "profile dictionary", "meta_override": "metadata dict",
    "value": "value stored by FitProperties.__setitem__",
}


def _is_private_fn(q):
    last = q.rsplit(".", 1)[-1]
    return last.startswith("_") and not (last.startswith("__")
                                         and last.endswith("__"))


def r1_no_mutation(ctx):
    """Public functions (and methods) never edit a by-value argument in
    place - directly or by handing it to a private helper that does.  What
    a private helper may do with its parameters is decided by what its
    callers pass: a helper that edits a fresh local array of its caller is
    fine."""
    n_fun = n_par = 0
    # which parameters does each private helper edit in place?
    helper_muts = {}
    for m, q, f in ctx.repo.all_funcs():
        if not _is_private_fn(q) or (m.name == "fit" and q.startswith(
                "FitProperties.")):
            continue
        ps = func_params(f)
        if not ps:
            continue
        al = effects.alias_map(f, {p: f"param:{p}" for p in ps})
        mut = {root for _n, root, _h in effects.mutations(f, al)}
        if mut:
            helper_muts[(m.name, q.rsplit(".", 1)[-1])] = (ps, mut)
    for m, q, f in ctx.repo.all_funcs():
        ps = [p for p in func_params(f) if p in BY_VALUE]
        if not ps:
            continue
        n_fun += 1
        n_par += len(ps)
        ctx.analysed(f)
        roots = {p: f"param:{p}" for p in ps}
        al = effects.alias_map(f, roots)
        if not _is_private_fn(q) or (m.name == "fit"):
            muts = effects.mutations(f, al)
        else:
            muts = []
        for node, root, how in muts:
            if m.name == "fit" and q == "FitProperties.__setitem__" and \
                    root == "value":
                continue
            ctx.fail(node, how,
                     f"{m.name}.{q} modifies its argument `{root}` in place "
                     f"({how}); the caller's object changes behind its back")
        # by-value arguments handed to a helper that edits that parameter
        handed = 0
        for c in calls_in(f):
            cn = (call_name(c) or "").split(".")[-1]
            hm = helper_muts.get((m.name, cn))
            if not hm:
                continue
            hps, hmut = hm
            offset = 1 if hps and hps[0] in ("self", "cls") and isinstance(
                c.func, ast.Attribute) else 0
            bound = dict(zip(hps[offset:], c.args))
            bound.update({k.arg: k.value for k in c.keywords if k.arg})
            for hp, arg in bound.items():
                b = effects.base_name(arg)
                if hp in hmut and b in al and not al[b].startswith(
                        ("fresh", "deep")) and isinstance(
                        arg, (ast.Name, ast.Attribute, ast.Subscript)):
                    handed += 1
                    ctx.fail(c, f"{cn}({norm(arg)[:30]}) edits its "
                             f"parameter `{hp}`",
                             f"{m.name}.{q} hands its argument "
                             f"`{al[b].split(':')[-1]}` to `{cn}`, which "
                             f"modifies that parameter in place; the "
                             "caller's object changes behind its back")
        if not muts and not handed:
            ctx.ok(f, f"{m.name}.{q}({', '.join(ps)}) mutates no argument")
    ctx.floor("functions with by-value parameters", n_fun, 40)


def _is_state_target(t, al_fp, infp):
    """store target is long-lived state: self.<attr> / fit-properties item"""
    if isinstance(t, ast.Attribute) and isinstance(t.value, ast.Name) and \
            t.value.id == "self":
        return f"self.{t.attr}"
    if isinstance(t, ast.Subscript) and facts.is_fp_receiver(
            t.value, al_fp, infp):
        return f"{norm(t.value)}[{norm(t.slice)}]"
    return None


def r2_no_retention(ctx):
    by_value = fitrules.fp_stores_by_value(ctx.repo)
    fn = ctx.repo.mod("fit").func("FitProperties.__setitem__")
    ctx.check(by_value, fn, "FitProperties.__setitem__ deep-copies settings",
              "FitProperties.__setitem__ stores settings objects by "
              "reference: an in-place edit of a previously passed object "
              "edits the stored setting, so passing it again compares the "
              "object with itself and the change is not noticed")
    n = 0
    for m, q, f in ctx.repo.all_funcs():
        if m.name.startswith("cli.") and "GUI" in q:
            continue
        ps = [p for p in func_params(f) if p in BY_VALUE]
        if not ps or (m.name == "fit" and q.startswith("FitProperties.")):
            continue
        if "." in q and q.split(".")[0].startswith("_"):
            # a private helper class: its instances live for the duration
            # of one library call and are not the library's state
            continue
        roots = {p: f"param:{p}" for p in ps}
        al = effects.alias_map(f, roots)
        al_fp = facts.fp_aliases(f)
        infp = False
        for st in walk_no_nested(f, False):
            if not isinstance(st, ast.Assign):
                continue
            for t in st.targets:
                where_ = _is_state_target(t, al_fp, infp)
                if where_ is None:
                    continue
                leaked_all = _leaks_all(st.value, al)
                for leaked in leaked_all:
                    n += 1
                    through_fp = isinstance(t, ast.Subscript)
                    ok = through_fp and by_value
                    ctx.check(ok, st, f"{where_} retains `{leaked}`",
                              f"{m.name}.{q} keeps a reference to the "
                              f"caller's `{leaked}` in {where_} without a "
                              "copy: a later in-place edit by the caller "
                              "changes the library's state (and change "
                              "detection compares the object with itself)")
        # stores that bypass the copy in FitProperties.__setitem__
        for c in walk_no_nested(f, False):
            if not (isinstance(c, ast.Call) and isinstance(
                    c.func, ast.Attribute) and c.func.attr in (
                        "restore", "update", "setdefault") and c.args):
                continue
            recv = norm(c.func.value)
            if not (recv.endswith("fit_properties") or recv in (
                    "fp", "self.fp") or recv in al_fp):
                continue
            payload = c.args[-1]
            for leaked in _leaks_all(payload, al):
                n += 1
                ctx.fail(c, f"{recv}.{c.func.attr}(...) retains `{leaked}`",
                         f"{m.name}.{q} stores the caller's `{leaked}` in "
                         f"the fit properties through `{c.func.attr}`, "
                         "which bypasses the copy made by "
                         "FitProperties.__setitem__: a later in-place edit "
                         "by the caller changes the stored settings and is "
                         "not noticed when the object is passed again")
    ctx.floor("parameter-derived stores into long-lived state", n, 3)


def _leaks(value, al):
    r = _leaks0(value, al)
    return None if r in SCALARS else r


def _leaks_all(value, al):
    """every by-value parameter the stored expression may carry"""
    out = []
    parts = [value]
    if isinstance(value, (ast.Tuple, ast.List, ast.Set)):
        parts = list(value.elts)
    elif isinstance(value, ast.Dict):
        parts = list(value.values)
    elif isinstance(value, ast.BinOp) and isinstance(value.op, ast.Add):
        parts = [value.left, value.right]
    for p_ in parts:
        if p_ is not value and isinstance(p_, (ast.Tuple, ast.List, ast.Dict,
                                               ast.BinOp)):
            for r in _leaks_all(p_, al):
                if r not in out:
                    out.append(r)
            continue
        if isinstance(p_, ast.Name) and p_.id in al and \
                al[p_.id].startswith("holds:"):
            # a local tuple/list literal: look at what it holds
            for st in ast.walk(_enclosing_func(p_)):
                if isinstance(st, ast.Assign) and isinstance(
                        st.targets[0], ast.Name) and \
                        st.targets[0].id == p_.id and isinstance(
                            st.value, (ast.Tuple, ast.List, ast.Dict)):
                    for r in _leaks_all(st.value, al):
                        if r not in out:
                            out.append(r)
            continue
        r = _leaks(p_, al)
        if r and r not in out:
            out.append(r)
    return out


def _enclosing_func(node):
    n = node
    while n is not None and not isinstance(n, (ast.FunctionDef,
                                               ast.AsyncFunctionDef)):
        n = getattr(n, "_parent", None)
    return n or node


def _leaks0(value, al):
    """name of the parameter whose object (or element) the expression may
    carry by reference, or None (fresh / scalar)."""
    if isinstance(value, ast.BinOp) and isinstance(value.op, ast.Add):
        # tuple/list concatenation keeps the elements
        for side in (value.left, value.right):
            if isinstance(side, (ast.Name, ast.Tuple, ast.List)):
                r = _leaks(side, al)
                if r:
                    return r
        return None
    fr = effects.freshness(value)
    if fr == "deep":
        return None
    if isinstance(value, (ast.Tuple, ast.List, ast.Set)):
        for e in value.elts:
            r = _leaks(e, al)
            if r:
                return r
        return None
    if isinstance(value, ast.Dict):
        for e in value.values:
            r = _leaks(e, al)
            if r:
                return r
        return None
    if isinstance(value, ast.Call):
        if fr == "shallow":
            # a shallow copy of a flat list of str/float is a value copy; of
            # nested containers it is not
            for a in value.args:
                b = effects.base_name(a)
                if b in al and al[b].split(":")[-1] in (
                        "options", "kwargs", "method_kws", "params_initial",
                        "params", "training_set"):
                    return al[b].split(":")[-1]
            return None
        if fr == "view":
            for a in value.args:
                b = effects.base_name(a)
                if b in al:
                    return al[b].split(":")[-1]
        return None
    if isinstance(value, (ast.Name, ast.Attribute, ast.Subscript)):
        b = effects.base_name(value)
        if b in al:
            src = al[b]
            if src.startswith("holds:"):
                return src.split(":")[-1]
            if src.startswith("shallowof:"):
                return None if isinstance(value, ast.Name) else \
                    src.split(":")[-1]
            return src.split(":")[-1]
    if isinstance(value, ast.IfExp):
        return _leaks(value.body, al) or _leaks(value.orelse, al)
    return None


SCALARS = {"regressor", "lda", "curhash", "rt", "which_type"}


def r3_no_handout(ctx):
    """Public curve methods return stored settings only as copies."""
    ind = ctx.repo.mod("indent")
    dflt = set(facts.fp_default(ctx.repo))
    n = 0
    for q, f in ind.funcs.items():
        if not q.startswith("Indentation.") or q.split(".")[1].startswith(
                "_") and q != "Indentation.__init__":
            continue
        if any(norm(d).endswith((".setter", "property")) for d in
               f.decorator_list):
            continue
        al_fp = facts.fp_aliases(f)
        roots = {}
        for st in walk_no_nested(f, False):
            if isinstance(st, ast.Assign) and isinstance(
                    st.targets[0], ast.Name):
                v = st.value
                if isinstance(v, ast.Subscript) and facts.is_fp_receiver(
                        v.value, al_fp) and const_str(v.slice) in dflt:
                    roots[st.targets[0].id] = f"setting:{const_str(v.slice)}"
                # name = fp.get("key"[, default])
                if isinstance(v, ast.Call) and isinstance(
                        v.func, ast.Attribute) and v.func.attr == "get" \
                        and v.args and const_str(v.args[0]) in dflt and \
                        facts.is_fp_receiver(v.func.value, al_fp):
                    roots[st.targets[0].id] = \
                        f"setting:{const_str(v.args[0])}"
        amap = effects.alias_map(f, roots)
        for r in walk_no_nested(f, False):
            if not isinstance(r, ast.Return) or r.value is None:
                continue
            vals = r.value.elts if isinstance(r.value, ast.Tuple) \
                else [r.value]
            for v in vals:
                key = None
                if isinstance(v, ast.Name) and v.id in amap:
                    key = amap[v.id].split(":")[-1]
                elif isinstance(v, ast.Subscript) and facts.is_fp_receiver(
                        v.value, al_fp) and const_str(v.slice) in dflt:
                    key = const_str(v.slice)
                elif isinstance(v, ast.Call) and isinstance(
                        v.func, ast.Attribute) and v.func.attr == "get" \
                        and v.args and const_str(v.args[0]) in dflt and \
                        facts.is_fp_receiver(v.func.value, al_fp):
                    key = const_str(v.args[0])
                if key is None:
                    continue
                n += 1
                ctx.fail(r, f"return of stored setting '{key}'",
                         f"{q} hands out the stored '{key}' object itself: "
                         "the documented get-edit-fit workflow edits the "
                         "stored settings in place and the next fit_model "
                         "call sees no change")
        # ... and a public attribute never holds the stored object itself
        for st in walk_no_nested(f, False):
            if not (isinstance(st, ast.Assign) and len(st.targets) == 1
                    and isinstance(st.targets[0], ast.Attribute)
                    and isinstance(st.targets[0].value, ast.Name)
                    and st.targets[0].value.id == "self"
                    and not st.targets[0].attr.startswith("_")):
                continue
            v = st.value
            key = None
            if isinstance(v, ast.Name) and v.id in amap:
                key = amap[v.id].split(":")[-1]
            elif isinstance(v, ast.Subscript) and facts.is_fp_receiver(
                    v.value, al_fp) and const_str(v.slice) in dflt:
                key = const_str(v.slice)
            elif isinstance(v, ast.Call) and isinstance(
                    v.func, ast.Attribute) and v.func.attr == "get" \
                    and v.args and const_str(v.args[0]) in dflt and \
                    facts.is_fp_receiver(v.func.value, al_fp):
                key = const_str(v.args[0])
            if key is None:
                continue
            n += 1
            ctx.fail(st, f"self.{st.targets[0].attr} is the stored setting "
                     f"'{key}'",
                     f"{q} binds the public attribute "
                     f"`{st.targets[0].attr}` to the stored '{key}' object "
                     "itself: an in-place edit of the attribute edits the "
                     "record that change detection compares with, so the "
                     "edit is not noticed and nothing is recomputed")
        ctx.analysed(f)
    fn = ind.func("Indentation.get_initial_fit_parameters")
    rets = [r for r in walk_no_nested(fn, False) if isinstance(r, ast.Return)]
    ctx.floor("returns of get_initial_fit_parameters", len(rets), 1)
    if not [i for i in ctx.instances if i.rule == ctx.rule
            and i.status == "fail"]:
        ctx.ok(fn, "stored settings are handed out as copies only")


def r4_no_library_edit_of_settings(ctx):
    funcs = [f for m, q, f in ctx.repo.all_funcs()
             if not (m.name == "fit" and q.startswith("FitProperties."))]
    muts = settings_mutations(ctx.repo, funcs)
    for node, f, key, how in muts:
        ctx.fail(node, how,
                 f"{f._qualname} edits the stored '{key.split(':')[-1]}' "
                 "object in place (e.g. rescaling the initial contact point "
                 "with the geometrical correction factor): with by-reference "
                 "storage this is the caller's object, and in multi-pass "
                 "fits the edit compounds")
    if not muts:
        ctx.ok(ctx.repo.mod("fit").func("IndentationFitter._fit"),
               f"no in-place edit of stored settings in {len(funcs)} "
               "functions")


def r5_change_detection(ctx):
    fitrules.setitem_invalidation(
        ctx, why=" (a caller editing a previously passed parameter set in "
        "place and passing it again is then not noticed)")


def r6_poc_leaves_force_alone(ctx):
    """compute_poc (used by two preprocessing steps on the curve's own
    force column) does not edit the array it is given: either every
    estimator leaves its input alone, or it works on the private copy that
    compute_preproc_clip_approach makes."""
    pm = ctx.repo.mod("poc")
    cp = pm.func("compute_poc")
    ctx.analysed(cp)
    effects.RETURN_ALIAS.clear()
    for q, f in pm.funcs.items():
        if "." in q:
            continue
        i = effects.returns_alias_of(f)
        if i is not None:
            effects.RETURN_ALIAS[q] = i
    try:
        al = effects.alias_map(cp, {"force": "param:force"})
        for node, root, how in effects.mutations(cp, al):
            ctx.fail(node, how, f"compute_poc modifies the force array it "
                     f"was given ({how})")
        clip_alias = "compute_preproc_clip_approach" in effects.RETURN_ALIAS
        n = 0
        for q, f in pm.funcs.items():
            decs = [d for d in f.decorator_list if isinstance(d, ast.Call)
                    and call_name(d) == "poc"]
            if not decs:
                continue
            n += 1
            ps = func_params(f)
            al2 = effects.alias_map(f, {ps[0]: f"param:{ps[0]}"})
            muts = effects.mutations(f, al2)
            pre = kwarg(decs[0], "preprocessing")
            clipped = pre is not None and "clip_approach" in norm(pre)
            private = clipped and not clip_alias
            if muts and not private:
                node, root, how = muts[0]
                ctx.fail(node, how,
                         f"estimator {q} edits its input in place ({how}) "
                         f"and compute_poc hands it "
                         f"{'a view of ' if clipped else ''}the caller's "
                         f"array: computing a contact point changes the "
                         f"curve's force column")
            else:
                ctx.ok(f, f"{q}: input left alone"
                       + (" (works on the clipped private copy)"
                          if muts else ""))
        ctx.floor("contact point estimators", n, 6)
    finally:
        effects.RETURN_ALIAS.clear()


def r7_edits_change_the_hash(ctx):
    """an in-place edit of a method-keyword or options dictionary that is
    passed again must lead to new results everywhere, including the rating
    cache, which is keyed on the fit hash: every setting is hashed by its
    full value"""
    from .c12 import r1_coverage, r2_encoder
    r1_coverage(ctx)
    # ... and an edited `params_initial` object: every attribute of a
    # parameter a caller can edit in place (value, vary, min, max, expr)
    # enters the encoding
    r2_encoder(ctx)


def r8_uniform_result_ownership(ctx):
    """A function that hands back a container derived from a by-value
    argument either always returns a new object or always the argument:
    one that copies on some return paths and returns the caller's own
    object on others gives results that share storage with the argument
    only for particular values (e.g. an already sorted list) - an edit of
    the result then edits the argument, and the next call with it differs
    from a call with a fresh equal-valued object."""
    n = 0
    for m, q, f in ctx.repo.all_funcs():
        if _is_private_fn(q):
            continue
        ps = [p for p in func_params(f) if p in BY_VALUE]
        if not ps:
            continue
        al = effects.alias_map(f, {p: f"param:{p}" for p in ps})
        rets = [r for r in walk_no_nested(f, False)
                if isinstance(r, ast.Return) and r.value is not None]
        if len(rets) < 2:
            continue
        kinds = {}
        for r in rets:
            vals = r.value.elts if isinstance(r.value, ast.Tuple) else [
                r.value]
            for i, v in enumerate(vals):
                if not isinstance(v, ast.Name) or v.id not in al:
                    continue
                src = al[v.id]
                root = src.split(":")[-1]
                if root not in ps:
                    continue
                k = "copy" if src.startswith("shallowof:") else (
                    None if src.startswith("holds:") else "argument")
                if k:
                    kinds.setdefault((i, root), {}).setdefault(k, r)
        for (i, root), d in kinds.items():
            n += 1
            ctx.check(len(d) == 1, d.get("argument") or f,
                      f"{m.name}.{q}: result derived from `{root}` is "
                      f"always {'/'.join(sorted(d))}",
                      f"{m.relpath}:{q} returns a copy of `{root}` on one "
                      f"path (line {d['copy'].lineno if 'copy' in d else '?'}"
                      f") and the caller's own object on another (line "
                      f"{d['argument'].lineno if 'argument' in d else '?'}):"
                      " for those inputs the result shares storage with "
                      "the argument, so editing the result edits the "
                      "argument handed in")
    ctx.note(f"{n} result(s) derived from by-value arguments with several "
             "return paths")



def r9_defaults_deep_copied(ctx):
    """Object state built from a module-level table of defaults starts from
    objects of its own: `Cls(**TABLE)`, `dict(TABLE)`, `TABLE.copy()` and
    `{**TABLE}` copy the table but *share its mutable entries* (the default
    `range_x` list, the default options dictionaries).  An in-place edit of
    such an entry through one curve then edits the default of every later
    fit - a result that depends on the history of other curves.  Accepted:
    the table (or the copy) goes through copy.deepcopy, or the table has no
    mutable entry."""
    from ..sharedstate import _global_value, _is_mutable_display
    n_sites = 0
    for m, q, f in ctx.repo.all_funcs():
        if m.name.startswith("cli."):
            continue
        for c in calls_in(f):
            cands = []
            for k in c.keywords:
                if k.arg is None and isinstance(k.value, ast.Name):
                    cands.append((k.value, f"{norm(c.func)}(**{k.value.id})"))
                elif k.arg is None and isinstance(k.value, ast.Call) and (
                        call_name(k.value) or "").endswith("deepcopy") and \
                        k.value.args and isinstance(
                            k.value.args[0], ast.Name) and _global_value(
                            ctx.repo, m, k.value.args[0].id) is not None:
                    n_sites += 1
                    ctx.ok(c, f"{norm(c.func)}(**deepcopy("
                           f"{k.value.args[0].id})) keeps entries of its own")
            cn = call_name(c) or ""
            if cn in ("dict", "OrderedDict") and len(c.args) == 1 and \
                    isinstance(c.args[0], ast.Name):
                cands.append((c.args[0], f"{cn}({c.args[0].id})"))
            if isinstance(c.func, ast.Attribute) and c.func.attr == "copy" \
                    and not c.args and isinstance(c.func.value, ast.Name):
                cands.append((c.func.value, f"{c.func.value.id}.copy()"))
            for nm, how in cands:
                tab = _global_value(ctx.repo, m, nm.id)
                if tab is None or nm.id in func_params(f):
                    continue
                vals = []
                if isinstance(tab, ast.Dict):
                    vals = list(tab.values)
                elif isinstance(tab, ast.Call) and norm(tab.func) in (
                        "dict", "OrderedDict"):
                    vals = [k.value for k in tab.keywords]
                muts = [v for v in vals if _is_mutable_display(v)]
                if not muts:
                    continue
                n_sites += 1
                # deep copy around the call?
                par = getattr(c, "_parent", None)
                deep = isinstance(par, ast.Call) and (
                    call_name(par) or "").endswith("deepcopy")
                ctx.check(deep, c, f"{how} keeps entries of its own",
                          f"{m.name}.{q} builds object state with {how}: "
                          f"the copy shares the mutable entries of the "
                          f"module-level defaults `{nm.id}` "
                          f"({', '.join(norm(v) for v in muts[:3])}); an "
                          "in-place edit through one curve (a stored "
                          "setting read back and edited) changes the "
                          "default of every later fit")
    ctx.floor("state built from a module-level table of defaults", n_sites, 1)



def r10_no_default_table_edit(ctx):
    """keyword arguments of one get_rater call must not leak into the
    module-level defaults every later call starts from: shared with C09-R4"""
    from .c09 import r4_seeded
    r4_seeded(ctx)


RULES = [
    ("C10-R1", "no in-place mutation of by-value arguments", r1_no_mutation),
    ("C10-R2", "no retention of caller objects by reference",
     r2_no_retention),
    ("C10-R3", "stored settings are handed out as copies", r3_no_handout),
    ("C10-R4", "the library does not edit stored settings in place",
     r4_no_library_edit_of_settings),
    ("C10-R5", "change detection compares the full state of the stored and "
     "the passed settings", r5_change_detection),
    ("C10-R6", "contact point estimation leaves the force array alone",
     r6_poc_leaves_force_alone),
    ("C10-R7", "every setting enters the fit hash by its full value (the "
     "rating cache is keyed on it)", r7_edits_change_the_hash),
    ("C10-R8", "a result derived from a by-value argument is a new object "
     "on every return path or on none", r8_uniform_result_ownership),
    ("C10-R9", "state built from a module-level table of defaults does not "
     "share the table's mutable entries", r9_defaults_deep_copied),
    ("C10-R10", 'the effect of a call depends on its own arguments only: module-level hyper-parameter defaults are never edited',
     r10_no_default_table_edit),
]
