"""None-default discipline (shared rule `<PID>-RN`).

A parameter whose default is `None` is documented as optional.  Every
attribute access or subscript on such a parameter must be protected: under a
guard that excludes None (`if p is not None`, `if p`, the else-branch of
`if p is None`, a conditional expression or a short-circuit `p and p.x` /
`p is None or p.x`), after a dominating `if p is None: p = <value>` (or
`p = p or <value>`, `p = <value> if p is None else p`), inside a loop that
iterates p, or after an unconditional re-binding of p.  Otherwise the call
with the documented default raises AttributeError/TypeError instead of doing
what the function documents - for the properties this means a valid request
is rejected.  Only the public functions and methods of the anchored files
are judged: what a private helper or a nested function receives is decided
by its callers.
"""
from __future__ import annotations

import ast

from .astutil import norm, walk_no_nested
from .cfg import CFG
from .guards import conditions_at


def _none_params(fn):
    a = fn.args
    out = []
    pos = a.posonlyargs + a.args
    for p, d in zip(pos[len(pos) - len(a.defaults):], a.defaults):
        if isinstance(d, ast.Constant) and d.value is None:
            out.append(p.arg)
    for p, d in zip(a.kwonlyargs, a.kw_defaults):
        if isinstance(d, ast.Constant) and d is not None and d.value is None:
            out.append(p.arg)
    return out


def _excludes_none(test, p, pol):
    """does `test` having truth value `pol` imply p is not None?"""
    if isinstance(test, ast.UnaryOp) and isinstance(test.op, ast.Not):
        return _excludes_none(test.operand, p, not pol)
    if isinstance(test, ast.Name) and test.id == p:
        return pol
    if isinstance(test, ast.Compare) and len(test.ops) == 1 and isinstance(
            test.left, ast.Name) and test.left.id == p:
        c = test.comparators[0]
        if isinstance(c, ast.Constant) and c.value is None:
            if isinstance(test.ops[0], (ast.IsNot, ast.NotEq)):
                return pol
            if isinstance(test.ops[0], (ast.Is, ast.Eq)):
                return not pol
    if isinstance(test, ast.BoolOp):
        if isinstance(test.op, ast.And) and pol:
            return any(_excludes_none(v, p, True) for v in test.values)
        if isinstance(test.op, ast.Or) and not pol:
            return any(_excludes_none(v, p, False) for v in test.values)
    if isinstance(test, ast.Call) and norm(test.func) == "isinstance" and \
            test.args and isinstance(test.args[0], ast.Name) and \
            test.args[0].id == p and pol:
        return "None" not in norm(test.args[1])
    return False


def _parents(fn):
    par = {}
    for n in ast.walk(fn):
        for c in ast.iter_child_nodes(n):
            par[id(c)] = n
    return par


def _expr_guarded(node, p, par, fn):
    """guards inside the enclosing expression: IfExp / BoolOp short-circuit /
    comprehension condition"""
    cur = node
    while id(cur) in par:
        up = par[id(cur)]
        if isinstance(up, ast.IfExp):
            if cur is up.body and _excludes_none(up.test, p, True):
                return True
            if cur is up.orelse and _excludes_none(up.test, p, False):
                return True
        if isinstance(up, ast.BoolOp):
            i = [k for k, v in enumerate(up.values) if v is cur]
            if i:
                before = up.values[:i[0]]
                if isinstance(up.op, ast.And) and any(
                        _excludes_none(b, p, True) for b in before):
                    return True
                if isinstance(up.op, ast.Or) and any(
                        _excludes_none(b, p, False) for b in before):
                    return True
        if isinstance(up, (ast.For, ast.comprehension)):
            it = up.iter
            if cur is not it and any(isinstance(n, ast.Name) and n.id == p
                                     for n in ast.walk(it)):
                return True      # p was iterated: it is not None
        if isinstance(up, ast.stmt) and not isinstance(up, (
                ast.For, ast.While, ast.If, ast.With, ast.Try)):
            pass
        if up is fn:
            break
        cur = up
    return False


def _default_fill(st, p):
    """`if p is None: p = v` / `if not p: p = v` / `p = p or v` /
    `p = v if p is None else p`: after this statement p is not None"""
    if isinstance(st, ast.If) and (_excludes_none(st.test, p, False)):
        # body runs exactly when p may be None
        for s in st.body:
            if isinstance(s, ast.Assign) and any(
                    isinstance(t, ast.Name) and t.id == p
                    for t in s.targets) and not (isinstance(
                        s.value, ast.Constant) and s.value.value is None):
                return True
            if isinstance(s, (ast.Raise, ast.Return)):
                return True
    if isinstance(st, ast.Assign) and any(isinstance(t, ast.Name) and
                                          t.id == p for t in st.targets):
        v = st.value
        if isinstance(v, ast.Constant) and v.value is None:
            return False
        return True
    return False


def check_function(ctx, mod, q, fn):
    """-> number of dereferences examined"""
    params = _none_params(fn)
    if not params:
        return 0
    par = _parents(fn)
    n = 0
    cfg = None
    # `p = p or <default>`: an explicitly given falsy argument (False, 0,
    # an empty container) is replaced as if it had not been given - unless
    # the default is itself the empty value of that kind
    for st in walk_no_nested(fn, False):
        if not (isinstance(st, ast.Assign) and len(st.targets) == 1
                and isinstance(st.targets[0], ast.Name)
                and st.targets[0].id in params
                and isinstance(st.value, ast.BoolOp)
                and isinstance(st.value.op, ast.Or)
                and isinstance(st.value.values[0], ast.Name)
                and st.value.values[0].id == st.targets[0].id):
            continue
        n += 1
        rest = st.value.values[1:]
        empty = all(
            (isinstance(r, ast.Constant) and not r.value)
            or (isinstance(r, (ast.Dict, ast.List, ast.Tuple, ast.Set))
                and not (getattr(r, "keys", None) or getattr(r, "elts", None)))
            or (isinstance(r, ast.Call) and norm(r.func) in (
                "dict", "list", "tuple", "set") and not r.args
                and not r.keywords)
            for r in rest)
        pn = st.targets[0].id
        ctx.check(empty, st, f"{mod.name}.{q}: `{norm(st)[:50]}`",
                  f"{mod.relpath}:{q} replaces its optional argument "
                  f"`{pn}` by `{norm(st.value)[:50]}`: only None means 'not "
                  f"given', but an explicitly passed falsy value (False, 0, "
                  "an empty container) is overridden as well, so the call "
                  "does not do what was requested")
    for p in params:
        derefs = []
        for node in walk_no_nested(fn, False):
            if isinstance(node, (ast.Attribute, ast.Subscript)) and \
                    isinstance(node.value, ast.Name) and node.value.id == p \
                    and isinstance(node.ctx, ast.Load):
                derefs.append(node)
        if not derefs:
            continue
        if cfg is None:
            cfg = CFG(fn)
        fills = []
        for node in cfg.nodes:
            if node.kind in ("stmt", "test") or True:
                st = getattr(node, "ast", None)
                if isinstance(st, ast.stmt) and _default_fill(st, p):
                    fills.append(node)
        # an `if` node in this CFG stands for its test; the fill is complete
        # once the whole statement is left: use dominance of the statements
        # following it -> approximate by source order within the same block
        for d in derefs:
            n += 1
            if any(_excludes_none(a.node, p, a.pol)
                   for a in conditions_at(d)):
                continue
            if _expr_guarded(d, p, par, fn):
                continue
            # a fill statement earlier in an enclosing block
            ok = False
            cur = d
            while id(cur) in par and not ok:
                up = par[id(cur)]
                for fld in ("body", "orelse", "finalbody"):
                    blk = getattr(up, fld, None)
                    if isinstance(blk, list) and cur in blk:
                        for st in blk[:blk.index(cur)]:
                            if _default_fill(st, p):
                                ok = True
                if up is fn:
                    break
                cur = up
            if ok:
                continue
            ctx.fail(d, f"{mod.name}.{q}: `{norm(d)[:40]}` with {p}=None",
                     f"{mod.relpath}:{q} dereferences its parameter `{p}` "
                     f"(`{norm(d)[:50]}`) although its documented default is "
                     f"None and no guard or default value protects this "
                     f"use: the call with the default raises "
                     f"AttributeError/TypeError instead of doing what is "
                     f"documented")
        del fills
    return n


def rule(ctx, files):
    repo = ctx.repo
    n = 0
    nf = 0
    for m in repo.modules.values():
        if m.relpath not in files:
            continue
        classes = {n.name for n in m.tree.body
                   if isinstance(n, ast.ClassDef)} if hasattr(
                       m, "tree") else set()
        for q, fn in m.funcs.items():
            if getattr(fn, "_inlined_helper", False):
                continue
            last = q.rsplit(".", 1)[-1]
            if last.startswith("_") and not (last.startswith("__")
                                             and last.endswith("__")):
                continue     # private: its callers decide what is passed
            parts = q.split(".")
            if len(parts) > 2 or (len(parts) == 2
                                  and parts[0] not in classes):
                continue     # nested helper
            k = check_function(ctx, m, q, fn)
            if k:
                nf += 1
            n += k
    ctx.note(f"{n} dereference(s) of None-default parameters examined in "
             f"{nf} function(s) of the anchored code")
    if n:
        ctx.ok(None, f"{n} uses of optional parameters are guarded")
