"""Parse /repo/src/nanite on every run and index it.

`Repo` is the only way rules get at source.  A rule asks for an anchor
(`repo.func("fit", "IndentationFitter._fit")`); a vanished anchor raises
`AnchorError`, which the driver turns into exit 2 (ANALYSIS-ERROR), never
into a silent pass or a VIOLATION.
"""
from __future__ import annotations

import ast
import os
import pathlib


class AnchorError(Exception):
    """An anchor (module, function, construct) the rule relies on vanished."""


class Undecided(Exception):
    """The construct is outside the idioms the rule can decide."""


def repo_root() -> pathlib.Path:
    return pathlib.Path(os.environ.get("NANITE_REPO", "/repo"))


class Module:
    def __init__(self, name: str, relpath: str, src: str, extern=None,
                 splice=None):
        self.name = name          # e.g. "fit", "rate.io", "model.core"
        self.relpath = relpath    # e.g. "src/nanite/fit.py"
        self.src = src
        self.raw_tree = ast.parse(src, filename=relpath)
        if os.environ.get("NANITE_SA_NO_NORMALIZE"):
            self.tree = self.raw_tree
        else:
            from .normalize import normalize_module
            tree = ast.parse(src, filename=relpath)
            if splice:
                tree = splice(tree)
            self.tree = normalize_module(tree, extern or {})
        self.funcs: dict[str, ast.AST] = {}
        self.classes: dict[str, ast.ClassDef] = {}
        self.assigns: dict[str, list[ast.AST]] = {}
        self.imports: dict[str, str] = {}
        self._index()

    # -- indexing ---------------------------------------------------------
    def _index(self):
        for node in ast.walk(self.tree):
            for child in ast.iter_child_nodes(node):
                child._parent = node  # type: ignore[attr-defined]
        self.tree._parent = None  # type: ignore[attr-defined]
        self.tree._module = self  # type: ignore[attr-defined]

        def visit(body, prefix):
            for st in body:
                if isinstance(st, (ast.FunctionDef, ast.AsyncFunctionDef)):
                    q = prefix + st.name
                    # keep the last definition (Python semantics)
                    self.funcs[q] = st
                    st._qualname = q  # type: ignore[attr-defined]
                    st._modname = self.name  # type: ignore[attr-defined]
                    visit(st.body, q + ".")
                elif isinstance(st, ast.ClassDef):
                    q = prefix + st.name
                    self.classes[q] = st
                    visit(st.body, q + ".")
                elif isinstance(st, (ast.If, ast.Try, ast.With, ast.For,
                                     ast.While)):
                    for fld in ("body", "orelse", "finalbody"):
                        visit(getattr(st, fld, []) or [], prefix)
                    for h in getattr(st, "handlers", []) or []:
                        visit(h.body, prefix)

        visit(self.tree.body, "")
        for st in self.tree.body:
            if isinstance(st, ast.Assign):
                for t in st.targets:
                    if isinstance(t, ast.Name):
                        self.assigns.setdefault(t.id, []).append(st.value)
            elif isinstance(st, ast.AnnAssign) and st.value is not None:
                if isinstance(st.target, ast.Name):
                    self.assigns.setdefault(st.target.id, []).append(st.value)
        for st in ast.walk(self.tree):
            if isinstance(st, ast.Import):
                for a in st.names:
                    self.imports[a.asname or a.name.split(".")[0]] = (
                        a.name if a.asname else a.name.split(".")[0])
            elif isinstance(st, ast.ImportFrom):
                base = ("." * st.level) + (st.module or "")
                for a in st.names:
                    self.imports[a.asname or a.name] = (
                        base + ("." if not base.endswith(".") and base
                                else "") + a.name)

    # -- anchors ----------------------------------------------------------
    def func(self, qualname: str) -> ast.FunctionDef:
        if qualname not in self.funcs:
            raise AnchorError(
                f"function {qualname} not found in {self.relpath}")
        return self.funcs[qualname]  # type: ignore[return-value]

    def has_func(self, qualname: str) -> bool:
        return qualname in self.funcs

    def cls(self, name: str) -> ast.ClassDef:
        if name not in self.classes:
            raise AnchorError(f"class {name} not found in {self.relpath}")
        return self.classes[name]

    def assign(self, name: str) -> ast.AST:
        """The (last) module-level value assigned to `name`."""
        if name not in self.assigns:
            raise AnchorError(
                f"module-level name {name} not found in {self.relpath}")
        return self.assigns[name][-1]

    def methods(self, clsname: str) -> dict[str, ast.FunctionDef]:
        c = self.cls(clsname)
        return {st.name: st for st in c.body
                if isinstance(st, ast.FunctionDef)}


class Repo:
    """All python modules under src/nanite of the tree being analysed."""

    def __init__(self, root: pathlib.Path | None = None,
                 overrides: dict[str, str] | None = None):
        self.root = pathlib.Path(root) if root else repo_root()
        self.pkg = self.root / "src" / "nanite"
        if not self.pkg.is_dir():
            raise AnchorError(f"package directory {self.pkg} not found")
        self.modules: dict[str, Module] = {}
        self.overrides = overrides or {}
        # first pass: scalar constants of every module, so that names
        # imported from a sibling module can be resolved as well
        srcs = {}
        for path in sorted(self.pkg.rglob("*.py")):
            rel = path.relative_to(self.root).as_posix()
            parts = list(path.relative_to(self.pkg).with_suffix("").parts)
            if parts[-1] == "__init__":
                parts = parts[:-1]
            name = ".".join(parts) if parts else "__init__"
            srcs[name] = (self.overrides[rel] if rel in self.overrides
                          else path.read_text(encoding="utf-8"))
        consts = {}
        if not os.environ.get("NANITE_SA_NO_NORMALIZE"):
            from .normalize import module_constants
            for name, src in srcs.items():
                try:
                    consts[name] = module_constants(ast.parse(src))[0]
                except SyntaxError:
                    consts[name] = {}
        self._consts = consts
        self._srcs = srcs
        self.spliced = set()
        for path in sorted(self.pkg.rglob("*.py")):
            rel = path.relative_to(self.root).as_posix()
            parts = list(path.relative_to(self.pkg).with_suffix("").parts)
            if parts[-1] == "__init__":
                parts = parts[:-1]
            name = ".".join(parts) if parts else "__init__"
            if rel in self.overrides:
                src = self.overrides[rel]
            else:
                src = path.read_text(encoding="utf-8")
            try:
                self.modules[name] = Module(
                    name, rel, src, self._extern(name, src, path),
                    splice=self._splicer(name, path))
                self.modules[name].repo = self
            except SyntaxError as e:  # pragma: no cover
                raise AnchorError(f"{rel} does not parse: {e}")
        # a private sibling module whose contents were placed into every
        # module that imports from it is not a unit of its own
        for name in self.spliced:
            self.modules.pop(name, None)

    def _splicer(self, name, path):
        """`from ._private import a, b` (a private sibling module of the
        package) -> the module's top-level definitions in place of the
        import, so that helpers and tables that moved to a private module
        are analysed with the code that uses them"""
        if os.environ.get("NANITE_SA_NO_NORMALIZE"):
            return None
        is_pkg = path.name == "__init__.py"
        base0 = name.split(".") if name != "__init__" else []
        if not is_pkg:
            base0 = base0[:-1]
        repo = self

        def body_of(tgt, base, seen):
            try:
                t = ast.parse(repo._srcs[tgt])
            except SyntaxError:
                return None
            out = []
            for st in t.body:
                if isinstance(st, ast.Expr) and isinstance(
                        st.value, ast.Constant) and isinstance(
                        st.value.value, str):
                    continue
                if isinstance(st, ast.ImportFrom) and st.module == \
                        "__future__":
                    continue
                if isinstance(st, ast.Assign) and any(
                        isinstance(x, ast.Name) and x.id == "__all__"
                        for x in st.targets):
                    continue
                if isinstance(st, (ast.FunctionDef, ast.ClassDef)):
                    # defined in a private module: private to the package
                    st._spliced = True
                out.extend(expand(st, tgt.split(".")[:-1], seen))
            return out

        mod_alias = {}

        def expand(st, base, seen):
            if isinstance(st, ast.ImportFrom) and st.level >= 1 and \
                    not st.module:
                # from . import _private [as alias]
                up = base[:len(base) - (st.level - 1)] if st.level > 1 \
                    else base
                keep, out = [], []
                for a in st.names:
                    tgt = ".".join(up + [a.name])
                    if a.name.startswith("_") and not a.name.startswith(
                            "__") and a.name != "_version" and \
                            tgt in repo._srcs and tgt != name:
                        mod_alias[a.asname or a.name] = tgt
                        repo.spliced.add(tgt)
                        if tgt not in seen:
                            seen.add(tgt)
                            out.extend(body_of(tgt, base, seen) or [])
                    else:
                        keep.append(a)
                if keep:
                    st.names = keep
                    out.insert(0, st)
                return out
            if not (isinstance(st, ast.ImportFrom) and st.level >= 1
                    and st.module):
                return [st]
            up = base[:len(base) - (st.level - 1)] if st.level > 1 else base
            tgt = ".".join(up + st.module.split("."))
            last = tgt.split(".")[-1]
            if not (last.startswith("_") and not last.startswith("__")
                    and last != "_version" and tgt in repo._srcs
                    and tgt != name):
                return [st]
            if any(a.name == "*" for a in st.names):
                return [st]
            extra = [ast.copy_location(ast.Assign(
                targets=[ast.Name(id=a.asname, ctx=ast.Store())],
                value=ast.Name(id=a.name, ctx=ast.Load())), st)
                for a in st.names if a.asname and a.asname != a.name]
            repo.spliced.add(tgt)
            if tgt in seen:
                return extra
            seen.add(tgt)
            body = body_of(tgt, base, seen)
            if body is None:
                return [st]
            return body + extra

        def splice(tree):
            seen = set()
            new = []
            for st in tree.body:
                new.extend(expand(st, base0, seen))
            tree.body = new
            if mod_alias:
                class _Un(ast.NodeTransformer):
                    def visit_Attribute(self, node):
                        self.generic_visit(node)
                        if isinstance(node.value, ast.Name) and \
                                node.value.id in mod_alias:
                            return ast.copy_location(ast.Name(
                                id=node.attr, ctx=node.ctx), node)
                        return node
                tree = _Un().visit(tree)
            return ast.fix_missing_locations(tree)
        return splice

    def _extern(self, name, src, path):
        """{local name: constant expression} for `from .sibling import X`"""
        out = {}
        if not self._consts:
            return out
        is_pkg = path.name == "__init__.py"
        base = name.split(".") if name != "__init__" else []
        if not is_pkg:
            base = base[:-1]
        try:
            tree = ast.parse(src)
        except SyntaxError:
            return out
        for st in tree.body:
            if isinstance(st, ast.ImportFrom) and st.level >= 1:
                up = base[:len(base) - (st.level - 1)] if st.level > 1 \
                    else base
                tgt = ".".join(up + (st.module.split(".") if st.module
                                     else []))
                tconst = self._consts.get(tgt)
                if not tconst:
                    continue
                for a in st.names:
                    if a.name in tconst:
                        out[a.asname or a.name] = tconst[a.name]
        return out

    def with_override(self, relpath: str, src: str) -> "Repo":
        ov = dict(self.overrides)
        ov[relpath] = src
        return Repo(self.root, ov)

    def mod(self, name: str) -> Module:
        if name not in self.modules:
            raise AnchorError(f"module nanite.{name} not found")
        return self.modules[name]

    def func(self, modname: str, qualname: str) -> ast.FunctionDef:
        return self.mod(modname).func(qualname)

    def all_funcs(self, include_inlined=False):
        for m in self.modules.values():
            for q, f in m.funcs.items():
                if getattr(f, "_inlined_helper", False) and \
                        not include_inlined:
                    continue
                yield m, q, f

    def stats(self) -> dict:
        nfun = sum(len(m.funcs) for m in self.modules.values())
        nlines = sum(m.src.count("\n") + 1 for m in self.modules.values())
        return {"modules": len(self.modules), "functions": nfun,
                "lines": nlines}


def where(node: ast.AST) -> tuple[str, int]:
    """(relpath, lineno) of a node (walks up to the module)."""
    n = node
    line = getattr(node, "lineno", 0)
    while getattr(n, "_parent", None) is not None:
        n = n._parent  # type: ignore[attr-defined]
        if not line:
            line = getattr(n, "lineno", 0)
    m = getattr(n, "_module", None)
    return (m.relpath if m else "?", line)


def enclosing_function(node: ast.AST):
    n = getattr(node, "_parent", None)
    while n is not None:
        if isinstance(n, (ast.FunctionDef, ast.AsyncFunctionDef)):
            return n
        n = getattr(n, "_parent", None)
    return None
