"""Rules about FitProperties / Indentation / IndentationFitter that several
properties share (each property lists the clause as its own necessary
condition)."""
from __future__ import annotations

import ast

from . import facts
from .astutil import (call_name, calls_in, const_str, dotted, norm, sub_key,
                      walk_no_nested)
from .cfg import CFG
from .guards import atoms, conditions_at
from .loader import AnchorError, Undecided

PARAM_STATE_ATTRS = {"value", "min", "max", "vary", "expr"}


def is_super_setitem(call: ast.Call) -> bool:
    """super(...).__setitem__(k, v) or dict.__setitem__(self, k, v)"""
    f = call.func
    if isinstance(f, ast.Attribute) and f.attr == "__setitem__":
        if isinstance(f.value, ast.Call) and call_name(f.value) == "super":
            return True
        if dotted(f.value) == "dict":
            return True
    return False


def is_reset_call(call: ast.Call, recv_ok) -> bool:
    return (isinstance(call.func, ast.Attribute) and call.func.attr == "reset"
            and recv_ok(call.func.value) and not call.args)


def _node_calls(node):
    a = node.ast
    if a is None or node.kind in ("entry", "exit", "raise", "finally"):
        return []
    if node.kind == "for":
        return list(calls_in(a.iter))
    if node.kind == "with":
        out = []
        for i in a.items:
            out.extend(calls_in(i.context_expr))
        return out
    if node.kind == "except":
        return []
    if isinstance(a, (ast.FunctionDef, ast.ClassDef)):
        return []
    return list(calls_in(a))


def node_calls(node):
    return _node_calls(node)


# ---------------------------------------------------------------------------
# FitProperties.__setitem__: a changed setting drops the results

def settings_gate(cfg, keyv):
    """(test node, edge label) after which the key is known to be a
    setting: `if key in FP_DEFAULT:` (true edge) or the guard clause
    `if key not in FP_DEFAULT: ... return/raise` (false edge)"""
    for n in cfg.nodes:
        if n.kind != "test":
            continue
        t = norm(n.ast)
        if t == f"{keyv} in FP_DEFAULT":
            return n, "true"
        if t in (f"{keyv} not in FP_DEFAULT", f"not {keyv} in FP_DEFAULT"):
            return n, "false"
    return None, None


def setitem_invalidation(ctx, keys=None, why=""):
    """Every path of FitProperties.__setitem__ that stores a settings key
    passes `self.reset()` or carries an equality fact between stored and new
    value; a return without storing is the documented range_x[0] don't-care.
    `keys` restricts the report to branches that can apply to these keys."""
    repo = ctx.repo
    fitm = repo.mod("fit")
    fn = fitm.func("FitProperties.__setitem__")
    ctx.analysed(fn)
    params = [a.arg for a in fn.args.args]
    if len(params) < 3:
        raise Undecided("FitProperties.__setitem__ signature changed")
    keyv, valv = params[1], params[2]
    cfg = CFG(fn)
    recv_ok = lambda n: isinstance(n, ast.Name) and n.id == "self"
    stores = [n for n in cfg.nodes if n.kind == "stmt" and any(
        is_super_setitem(c) for c in _node_calls(n))]
    if not stores:
        raise AnchorError("FitProperties.__setitem__ has no "
                          "super().__setitem__ store")
    resets = {n.id for n in cfg.nodes if any(
        is_reset_call(c, recv_ok) for c in _node_calls(n))}
    if not resets:
        ctx.fail(fn, "self.reset() in __setitem__",
                 "FitProperties.__setitem__ never calls self.reset(): a "
                 "changed setting keeps stale results and hash")
        return
    # region: true edge of `key in FP_DEFAULT`
    gate, gate_lab = settings_gate(cfg, keyv)
    if gate is None:
        raise Undecided("cannot find the `key in FP_DEFAULT` test")
    # equality-carrying edges
    eq_edges = set()
    notes = []
    from .symres import Resolver as _Rs
    Rs = _Rs(fn, keep={keyv, valv})

    def rtext(a):
        # the test with single-assigned locals (`current = self[key]`)
        # replaced by their definitions
        try:
            return Rs.text(a.node)
        except Exception:
            return a.text
    for n in cfg.nodes:
        if n.kind == "test":
            for pol, lab in ((True, "true"), (False, "false")):
                ats = atoms(n.ast, pol)
                if any((a.pol and (a.text in (
                        f"self[{keyv}] == {valv}", f"{valv} == self[{keyv}]")
                        or rtext(a) in (f"self[{keyv}] == {valv}",
                                        f"{valv} == self[{keyv}]")))
                       or ((not a.pol) and rtext(a) in (
                           f"self[{keyv}] != {valv}",
                           f"{valv} != self[{keyv}]"))
                       for a in ats):
                    eq_edges.add((n.id, lab))
        elif n.kind == "for":
            ok, missing = _full_state_loop(n.ast, valv, fn)
            if ok:
                eq_edges.add((n.id, "exhaust"))
            elif missing is not None:
                notes.append((n, missing))
        if n.kind == "test":
            # `if <differ-predicate>(stored, new): reset()`
            for pol, lab in ((True, "false"), (False, "true")):
                for a in atoms(n.ast, pol):
                    if a.pol and isinstance(a.node, ast.Name):
                        # the predicate's value held in a local
                        v0_ = Rs.single(a.node.id)
                        if isinstance(v0_, ast.Call):
                            a = type(a)(v0_, a.pol, a.origin)
                    if not a.pol or not isinstance(a.node, ast.Call):
                        continue
                    ok, missing = _differ_call(a.node, fitm, valv)
                    if not ok and not missing:
                        ok, missing = _differ_any(a.node, valv)
                    if not ok and not missing:
                        # the same with locals resolved (`current =
                        # self[key]` where key == 'params_initial' holds)
                        try:
                            from .astutil import clone as _clone
                            n2_ = _clone(a.node)

                            class _Sub(ast.NodeTransformer):
                                def visit_Name(self, nd):
                                    v_ = Rs.single(nd.id) if isinstance(
                                        nd.ctx, ast.Load) else None
                                    if v_ is not None and nd.id not in (
                                            keyv, valv):
                                        return _clone(v_)
                                    return nd
                            n2_ = ast.fix_missing_locations(
                                _Sub().visit(n2_))
                        except Exception:
                            n2_ = None
                        if n2_ is not None and any(
                                c.pol and c.text == f"{keyv} == "
                                "'params_initial'"
                                for c in conditions_at(n.ast)):
                            for x in ast.walk(n2_):
                                if isinstance(x, ast.Subscript) and norm(
                                        x) == f"self[{keyv}]":
                                    x.slice = ast.Constant(
                                        value="params_initial")
                        if n2_ is not None and isinstance(n2_, ast.Call):
                            ok, missing = _differ_any(n2_, valv)
                    if ok:
                        eq_edges.add((n.id, lab))
                    elif missing:
                        notes.append((n, missing))

    # the documented don't-care: once `key == 'range_x'`, plateau search on
    # and an unchanged upper bound are established, the results may stay
    for n in cfg.nodes:
        if n.kind != "test":
            continue
        for pol_, lab_ in ((True, "true"), (False, "false")):
            own_ats = list(atoms(n.ast, pol_))
            ats = own_ats + [a for a in conditions_at(n.ast)]
            tx = {(a.text.replace(" ", ""), a.pol) for a in ats}
            is_rx = (f"{keyv}=='range_x'", True) in tx
            edl = any(pol and t in ("self['optimal_fit_edelta']",
                                    "self.get('optimal_fit_edelta',False)",
                                    "self.get('optimal_fit_edelta')")
                      for t, pol in tx)
            hi = any(pol and t in (
                f"max(self['range_x'])==max({valv})",
                f"max({valv})==max(self['range_x'])",
                f"np.max(self['range_x'])==np.max({valv})",
                f"np.max({valv})==np.max(self['range_x'])")
                for t, pol in tx)
            own = {a.text.replace(" ", "") for a in own_ats if a.pol}
            if is_rx and edl and hi and any("max(" in t for t in own):
                eq_edges.add((n.id, lab_))

    def edge_ok(s, t, lab):
        if (s, lab) in eq_edges:
            return False
        if lab == "exc":
            return False
        return True

    def dont_care(node):
        """path condition: key is range_x, the plateau search is on and the
        upper bound is unchanged - the lower bound is then irrelevant for
        the results, which may stay"""
        conds = conditions_at(node)
        texts = {(a.text, a.pol) for a in conds}
        is_rx = (f"{keyv} == 'range_x'", True) in texts
        edelta = any(pol and t in ("self['optimal_fit_edelta']",
                                   "self.get('optimal_fit_edelta', False)",
                                   "self.get('optimal_fit_edelta')")
                     for t, pol in texts)
        same_hi = any(a.pol and a.text.replace(" ", "") in (
            f"max(self['range_x'])==max({valv})",
            f"max({valv})==max(self['range_x'])",
            f"np.max(self['range_x'])==np.max({valv})",
            f"np.max({valv})==np.max(self['range_x'])") for a in conds)
        return is_rx and edelta and same_hi

    bad_store = False
    for st in stores:
        r = cfg.reach([gate.id], avoid=resets, via_first=(gate_lab,),
                      edge_ok=edge_ok)
        if st.id in r and dont_care(st.ast):
            ctx.ok(st.ast, f"store {norm(st.ast)[:40]} under the documented "
                   "don't-care (range_x[0] while the plateau search is on)")
            continue
        if st.id in r:
            bad_store = True
            # find a witness path for the report
            path = _witness(cfg, gate.id, st.id, resets, edge_ok)
            branch = _branch_keys(cfg, path, keyv)
            msg = ("a settings key can be stored without self.reset() and "
                   "without an equality test of stored vs new value: results "
                   "and hash of the previous settings stay visible")
            if notes:
                n0, missing = notes[0]
                msg += (f"; the parameter-state comparison loop ignores "
                        f"{sorted(missing)}")
            if branch:
                msg += f" (branch for key {branch})"
            ctx.fail(st.ast, f"store {norm(st.ast)} reachable without reset",
                     msg + why, path=cfg.describe_path(path) if path else None)
        else:
            ctx.ok(st.ast, f"store {norm(st.ast)}",
                   "every path passes reset() or an equality fact")
    # returns without storing
    rets = [n for n in cfg.nodes if n.kind == "stmt"
            and isinstance(n.ast, ast.Return)]
    region = cfg.reach([gate.id], via_first=("true",)) | {gate.id}
    for rn in rets:
        if rn.id not in region:
            continue
        # a store before this return on every path: handled above
        passes_store = not cfg.reach([gate.id], avoid={s.id for s in stores},
                                     via_first=("true",)) & {rn.id}
        if passes_store:
            continue
        ctx.fail(rn.ast, "return without storing the requested value",
                 "FitProperties.__setitem__ returns without storing the new "
                 "value of a settings key ("
                 + " and ".join(repr(a) for a in conditions_at(rn.ast))[:160]
                 + "): the request is dropped, the stored setting keeps its "
                 "old value and later fits (e.g. after the plateau search "
                 "is switched off) use a range nobody asked for")
    # the model_key branch clears the initial parameters
    clears = [n for n in cfg.nodes if n.kind == "stmt"
              and isinstance(n.ast, ast.Assign)
              and norm(n.ast.targets[0]) == "self['params_initial']"
              and isinstance(n.ast.value, ast.Constant)
              and n.ast.value.value is None]
    good = False
    for c in clears:
        conds = conditions_at(c.ast)
        if any(a.pol and a.text == f"{keyv} == 'model_key'" for a in conds):
            good = True
    ctx.check(good, fn, "model_key change clears params_initial",
              "changing the model no longer clears the initial parameters "
              "of the previous model")
    # unknown keys are rejected
    raises = [n for n in cfg.nodes if n.kind == "stmt"
              and isinstance(n.ast, ast.Raise)]
    rej = False
    for r_ in raises:
        conds = conditions_at(r_.ast)
        tx = {(a.text, a.pol) for a in conds}
        if (f"{keyv} in FP_DEFAULT", False) in tx and \
                (f"{keyv} in FP_RESULTS", False) in tx:
            rej = True
    ctx.check(rej, fn, "unknown keys raise",
              "keys outside FP_DEFAULT/FP_RESULTS are no longer rejected")
    return not bad_store


def _differ_call(call, fitm, valv):
    """call of a helper that returns truthy iff some parameter state of the
    stored initial parameters differs from the new ones"""
    cn = call_name(call) or ""
    short = cn.split(".")[-1]
    cands = [f for q, f in fitm.funcs.items() if q.split(".")[-1] == short]
    if not cands:
        return False, None
    h = cands[0]
    params = [a.arg for a in h.args.args if a.arg not in ("self", "cls")]
    args = [norm(a) for a in call.args] + [norm(k.value)
                                           for k in call.keywords]
    if valv not in args:
        return False, None
    from .symres import Resolver
    R = Resolver(h)
    for loop in walk_no_nested(h, False):
        if not isinstance(loop, ast.For):
            continue
        for st in ast.walk(loop):
            if isinstance(st, ast.If) and isinstance(st.test, ast.Compare) \
                    and len(st.test.ops) == 1 and isinstance(
                        st.test.ops[0], ast.NotEq) and any(
                            isinstance(x, ast.Return) and isinstance(
                                x.value, ast.Constant) and x.value.value
                            is True for x in st.body):
                sides = [R.resolve(st.test.left),
                         R.resolve(st.test.comparators[0])]
                kinds = [_state_kind(e) for e in sides]
                if all(k == "full" for k in kinds):
                    last = [x for x in h.body if isinstance(x, ast.Return)]
                    if last and isinstance(last[-1].value, ast.Constant) and \
                            last[-1].value.value is False:
                        return True, None
                missing = set()
                for k in kinds:
                    if isinstance(k, set):
                        missing |= k
                if missing:
                    return False, missing
    return False, None


def _differ_any(call, valv):
    """any(<state of stored p> != <state of new p> for p in stored)"""
    if call_name(call) != "any" or len(call.args) != 1 or not isinstance(
            call.args[0], (ast.GeneratorExp, ast.ListComp)):
        return False, None
    ge = call.args[0]
    if len(ge.generators) != 1 or ge.generators[0].ifs:
        return False, None
    g = ge.generators[0]
    if "params_initial" not in norm(g.iter):
        return False, None
    e = ge.elt
    if not (isinstance(e, ast.Compare) and len(e.ops) == 1 and isinstance(
            e.ops[0], ast.NotEq)):
        return False, None
    sides = [e.left, e.comparators[0]]
    kinds = [_state_kind(x) for x in sides]
    if all(k == "full" for k in kinds):
        stored = any("self['params_initial']" in norm(x) for x in sides)
        new = any(norm(x).startswith(f"{valv}[") for x in sides)
        return (stored and new), None
    missing = set()
    for k in kinds:
        if isinstance(k, set):
            missing |= k
    return False, (missing or None)


def _full_state_loop(loop: ast.For, valv, fn=None):
    """Is this `for pp in self['params_initial']` loop a complete comparison
    of parameter states with reset+break on difference?  Returns (ok,
    missing_attrs|None)."""
    from .symres import Resolver
    R = Resolver(fn) if fn is not None else None
    it = R.text(loop.iter) if R is not None else norm(loop.iter)
    if "params_initial" not in it:
        return False, None
    var = loop.target.id if isinstance(loop.target, ast.Name) else None
    if var is None:
        return False, None
    # find `if A != B: ... reset ... break`
    for st in ast.walk(loop):
        if isinstance(st, ast.If) and isinstance(st.test, ast.Compare) \
                and len(st.test.ops) == 1 \
                and isinstance(st.test.ops[0], ast.NotEq):
            has_reset = any(isinstance(c, ast.Call) and isinstance(
                c.func, ast.Attribute) and c.func.attr == "reset"
                for c in ast.walk(st))
            has_break = any(isinstance(x, ast.Break) for x in ast.walk(st))
            if not (has_reset and has_break):
                continue
            sides = [st.test.left, st.test.comparators[0]]
            if R is not None:
                exprs = [R.resolve(s) for s in sides]
            else:
                exprs = [_resolve_local(s, loop) for s in sides]
            kinds = [_state_kind(e) for e in exprs]
            if all(k == "full" for k in kinds):
                stored = any("self['params_initial']" in norm(e)
                             for e in exprs)
                new = any(norm(e).startswith(f"{valv}[") for e in exprs)
                if stored and new:
                    return True, None
            missing = set()
            for k in kinds:
                if isinstance(k, set):
                    missing |= k
            if missing:
                return False, missing
    return False, None


def _resolve_local(expr, scope):
    if isinstance(expr, ast.Name):
        for st in ast.walk(scope):
            if isinstance(st, ast.Assign) and len(st.targets) == 1 and \
                    isinstance(st.targets[0], ast.Name) and \
                    st.targets[0].id == expr.id:
                return st.value
    return expr


def _state_kind(e):
    """'full' if the expression captures the whole parameter state, else the
    set of missing attributes, or None if unrecognised."""
    if isinstance(e, ast.Call) and isinstance(e.func, ast.Attribute) and \
            e.func.attr == "__getstate__":
        return "full"
    attrs = {n.attr for n in ast.walk(e) if isinstance(n, ast.Attribute)}
    if attrs & PARAM_STATE_ATTRS:
        missing = PARAM_STATE_ATTRS - attrs
        return "full" if not missing else missing
    return None


def _witness(cfg, src, dst, avoid, edge_ok):
    from collections import deque
    prev = {src: None}
    dq = deque([src])
    first = True
    while dq:
        n = dq.popleft()
        for (t, lab) in cfg.succ[n]:
            if n == src and lab != "true":
                continue
            if t in avoid or t in prev or not edge_ok(n, t, lab):
                continue
            prev[t] = n
            dq.append(t)
    if dst not in prev:
        return None
    out, n = [], dst
    while n is not None:
        out.append(n)
        n = prev[n]
    return list(reversed(out))


def _branch_keys(cfg, path, keyv):
    if not path:
        return None
    keys = []
    for i in path:
        n = cfg.nodes[i]
        if n.kind == "test":
            for a in atoms(n.ast, True):
                if a.text.startswith(f"{keyv} == "):
                    keys.append(a.text.split("==", 1)[1].strip())
    return keys[-1] if keys else None


# ---------------------------------------------------------------------------
# FitProperties stores settings by value

def setitem_copies_settings(fn) -> bool:
    """In FitProperties.__setitem__, every store of a settings key is
    preceded (dominated) by `value = copy.deepcopy(value)` under
    `key in FP_DEFAULT`, or the stored expression itself is a deepcopy."""
    params = [a.arg for a in fn.args.args]
    keyv, valv = params[1], params[2]
    cfg = CFG(fn)
    stores = [n for n in cfg.nodes if n.kind == "stmt" and any(
        is_super_setitem(c) for c in _node_calls(n))]
    all_copies = []
    for n in cfg.nodes:
        if n.kind == "stmt" and isinstance(n.ast, ast.Assign) and \
                isinstance(n.ast.targets[0], ast.Name) and isinstance(
                    n.ast.value, ast.Call) and call_name(n.ast.value) in (
                        "copy.deepcopy", "deepcopy") and \
                n.ast.value.args and norm(n.ast.value.args[0]) == valv:
            all_copies.append(n)
    if not stores:
        return False
    for st in stores:
        call = [c for c in _node_calls(st) if is_super_setitem(c)][0]
        arg = call.args[-1]
        if isinstance(arg, ast.Call) and call_name(arg) in (
                "copy.deepcopy", "deepcopy"):
            continue
        if not isinstance(arg, ast.Name):
            return False
        # the copies that bind the stored name (a path from the gate to the
        # store that passes none of them stores the caller's object)
        copies = [n for n in all_copies
                  if n.ast.targets[0].id == arg.id]
        if arg.id != valv and any(
                isinstance(n.ast, ast.Assign) and any(
                    norm(t) == arg.id for t in n.ast.targets)
                and n not in copies for n in cfg.nodes
                if n.kind == "stmt"):
            return False
        # every path gate(true) -> store passes a copy node
        gate0, lab0 = settings_gate(cfg, keyv)
        if gate0 is None:
            return False
        r0 = cfg.reach([gate0.id], via_first=(lab0,), skip_labels=("exc",))
        if st.id not in r0:
            continue        # not a store of a settings key
        if not copies:
            return False
        r = cfg.reach([gate0.id], avoid={c.id for c in copies},
                      via_first=(lab0,), skip_labels=("exc",))
        if st.id in r:
            # the copy may sit behind a second `if key in FP_DEFAULT`
            ok = False
            for c in copies:
                if cfg.dominates(c.id, st.id) or _cond_dominates(
                        cfg, c, st, keyv):
                    ok = True
            if not ok:
                return False
    return True


def _cond_dominates(cfg, copy_node, store_node, keyv):
    """copy sits in `if key in FP_DEFAULT:` (no else) right before the store:
    for settings keys the copy is always executed."""
    conds = conditions_at(copy_node.ast)
    if not conds:
        return False
    if not all(a.text == f"{keyv} in FP_DEFAULT" and a.pol for a in conds):
        return False
    test = conds[0].origin
    tnode = cfg.node_of_stmt(test) if test is not None else None
    if tnode is None:
        return False
    return cfg.dominates(tnode.id, store_node.id) and \
        cfg.always_passes(copy_node.id, [cfg.exit], [store_node.id],
                          skip_labels=("exc",))


def fp_stores_by_value(repo) -> bool:
    return setitem_copies_settings(
        repo.mod("fit").func("FitProperties.__setitem__"))


# ---------------------------------------------------------------------------

def every_path_through(cfg, a, x_ids, skip_exc=True) -> bool:
    """Every entry->normal-exit path that passes node `a` also passes one of
    `x_ids` (before or after)."""
    skip = ("exc",) if skip_exc else ()
    before = a in cfg.reach([cfg.entry], avoid=x_ids, skip_labels=skip) or \
        a == cfg.entry
    if not before:
        return True
    after = cfg.exit in cfg.reach([a], avoid=x_ids, skip_labels=skip)
    return not after
