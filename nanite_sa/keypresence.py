"""Key-presence typestate for reads of fit-properties keys.

A subscript read `fp["k"]` is safe when the path condition at the read
implies that `k` is present.  Facts come from

* `"k" in fp` (true)                      -> {k}
* `fp.get("success", False)` truthy, or `fp["success"]` truthy  -> FITTED
* a predicate property of IndentationFeatures whose *derived summary* says
  "truthy => FITTED" (is_fitted, has_contact_point - recomputed from their
  bodies on every run; `is_valid` only says the dict is non-empty, which
  implies nothing)
* FITTED => params_fitted, success and every key of FP_DEFAULT present
  (results are written only by the fitter, whose property object starts as
  FP_DEFAULT and is merged as a whole: checked by C03-R2/R3).

`requires(func)` is computed inter-procedurally through `self.<property>`
and `self.<method>()` uses inside the features class: an unguarded use of an
accessor propagates the accessor's own requirement to the user.
"""
from __future__ import annotations

import ast

from . import facts
from .astutil import const_str, dotted, norm, walk_no_nested
from .guards import conditions_at

FITTED = "<fitted>"


def _success_expr(node) -> bool:
    """expression whose truthiness means success is present and truthy"""
    if isinstance(node, ast.BoolOp) and isinstance(node.op, ast.And):
        return any(_success_expr(v) for v in node.values)
    if isinstance(node, ast.Call) and isinstance(node.func, ast.Name) and \
            node.func.id == "bool" and len(node.args) == 1:
        return _success_expr(node.args[0])
    if isinstance(node, ast.Subscript) and const_str(node.slice) == \
            "success" and "fit_properties" in norm(node.value):
        return True
    if isinstance(node, ast.Call) and isinstance(node.func, ast.Attribute) \
            and node.func.attr == "get" and node.args and \
            const_str(node.args[0]) == "success" and \
            "fit_properties" in norm(node.func.value):
        if len(node.args) == 1:
            return True
        d = node.args[1]
        return isinstance(d, ast.Constant) and not d.value
    return False


class Presence:
    def __init__(self, repo, clsmod="rate.features",
                 clsname="IndentationFeatures"):
        self.repo = repo
        self.mod = repo.mod(clsmod)
        self.cls = clsname
        self.methods = self.mod.methods(clsname)
        self.dflt = set(facts.fp_default(repo))
        self.pred_fitted: set[str] = set()
        self._derive_predicates()
        self._req_cache: dict[str, list] = {}

    # -- predicate summaries -------------------------------------------------
    def _derive_predicates(self):
        changed = True
        while changed:
            changed = False
            for name, f in self.methods.items():
                if name in self.pred_fitted:
                    continue
                rets = [r for r in walk_no_nested(f, False)
                        if isinstance(r, ast.Return)]
                if not rets:
                    continue
                ok = True
                for r in rets:
                    v = r.value
                    if v is None or (isinstance(v, ast.Constant)
                                     and not v.value):
                        continue
                    if _success_expr(v):
                        continue
                    facts_ = self.facts_at(r)
                    if FITTED in facts_:
                        continue
                    ok = False
                if ok and any(not (r.value is None or (
                        isinstance(r.value, ast.Constant)
                        and not r.value.value)) for r in rets):
                    self.pred_fitted.add(name)
                    changed = True

    # -- facts at a node -----------------------------------------------------
    def facts_at(self, node) -> set[str]:
        out = set()
        for a in conditions_at(node):
            if not a.pol:
                continue
            n = a.node
            if isinstance(n, ast.Compare) and len(n.ops) == 1 and \
                    isinstance(n.ops[0], ast.In) and const_str(n.left) and \
                    "fit_properties" in norm(n.comparators[0]):
                out.add(const_str(n.left))
                if const_str(n.left) == "params_fitted":
                    out.add("params_fitted")
            elif _success_expr(n):
                out.add(FITTED)
            elif isinstance(n, ast.Attribute) and isinstance(
                    n.value, ast.Name) and n.value.id == "self" and \
                    n.attr in self.pred_fitted:
                out.add(FITTED)
        if FITTED in out:
            out |= {"success", "params_fitted"} | self.dflt
        return out

    # -- requirements ----------------------------------------------------------
    def requires(self, name, stack=()):
        """[(key, node, chain)] keys that `name` needs present on entry."""
        if name in self._req_cache:
            return self._req_cache[name]
        if name in stack or name not in self.methods:
            return []
        f = self.methods[name]
        out = []
        for n in walk_no_nested(f, False):
            if isinstance(n, ast.Subscript) and isinstance(n.ctx, ast.Load) \
                    and norm(n.value).endswith(("fit_properties", ".fp")) \
                    and const_str(n.slice):
                k = const_str(n.slice)
                if k not in self.facts_at(n):
                    out.append((k, n, (name,)))
            elif isinstance(n, ast.Attribute) and isinstance(
                    n.value, ast.Name) and n.value.id == "self" and \
                    n.attr in self.methods and n.attr != name:
                sub = self.requires(n.attr, stack + (name,))
                have = self.facts_at(n)
                for (k, node, chain) in sub:
                    if k not in have:
                        out.append((k, node, (name,) + chain))
        self._req_cache[name] = out
        return out


def success_atom(atom, R=None) -> bool:
    """a positive-polarity test that implies `success` is present and true:
    fp["success"] / fp.get("success"[, falsy]) with fp resolving to a
    fit-properties object (aliases resolved through R)"""
    n = atom.node
    recv = None
    if isinstance(n, ast.Subscript) and const_str(n.slice) == "success":
        recv = n.value
    elif isinstance(n, ast.Call) and isinstance(n.func, ast.Attribute) and \
            n.func.attr == "get" and n.args and const_str(
                n.args[0]) == "success":
        if len(n.args) > 1 and not (isinstance(n.args[1], ast.Constant)
                                    and not n.args[1].value):
            return False
        recv = n.func.value
    if recv is None:
        return False
    t = R.text(recv) if R is not None and hasattr(recv, "_parent") else \
        norm(recv)
    return t.endswith("fit_properties")
