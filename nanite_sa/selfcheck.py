"""setup_cmd: the engine imports and the repository parses."""
import sys

from .loader import Repo


def main():
    repo = Repo()
    st = repo.stats()
    print(f"nanite_sa selfcheck: parsed {st['modules']} modules, "
          f"{st['functions']} functions, {st['lines']} lines")
    return 0


if __name__ == "__main__":
    sys.exit(main())
