"""Statement-level control-flow graph for one Python function.

Nodes are simple statements, branch tests (`if`/`while` tests, `for`
headers, `with` headers, `except` entries) plus three synthetic nodes: entry,
exit (normal return) and raise (exceptional exit).  Edges carry a label:
None (fall-through), 'true'/'false' (branch), 'loop'/'exhaust' (for header),
'exc' (implicit or explicit exception).

Implicit exception edges leave every statement that contains a call, a
subscript, an assert or a raise; they go to the handlers of the innermost
enclosing `try` (and further outward unless a handler catches everything) or
to the function's raise node.  `finally` bodies are duplicated for the
normal, exceptional and return continuations.
"""
from __future__ import annotations

import ast
from collections import deque

from .astutil import norm, walk_no_nested
from .loader import Undecided


class Node:
    __slots__ = ("id", "kind", "ast", "stmt", "copy")

    def __init__(self, id, kind, astnode=None, stmt=None, copy=""):
        self.id = id
        self.kind = kind     # entry exit raise stmt test for with except
        self.ast = astnode   # the expression/statement evaluated here
        self.stmt = stmt     # the enclosing statement
        self.copy = copy     # "", "exc", "ret" for duplicated finally bodies

    @property
    def lineno(self):
        return getattr(self.ast, "lineno", getattr(self.stmt, "lineno", 0))

    def text(self):
        if self.kind in ("entry", "exit", "raise"):
            return self.kind
        if self.kind == "test":
            return f"if {norm(self.ast)}"
        if self.kind == "for":
            return f"for {norm(self.ast.target)} in {norm(self.ast.iter)}"
        if self.kind == "with":
            return "with " + ", ".join(norm(i) for i in self.ast.items)
        if self.kind == "except":
            return "except " + (norm(self.ast.type) if self.ast.type else "")
        t = norm(self.ast)
        return t.split("\n")[0][:120]

    def __repr__(self):
        return f"<{self.id}:{self.kind}:{self.lineno}:{self.text()[:40]}>"


def may_raise(node) -> bool:
    for n in walk_no_nested(node):
        if isinstance(n, (ast.Call, ast.Subscript, ast.Assert, ast.Raise,
                          ast.Await)):
            return True
    return False


class _Ctx:
    def __init__(self, exc, ret, brk=None, cont=None):
        self.exc = exc      # list of node ids receiving exceptions
        self.ret = ret      # node id receiving returns
        self.brk = brk      # list collecting (node, label) for breaks
        self.cont = cont    # node id for continue

    def derive(self, **kw):
        c = _Ctx(self.exc, self.ret, self.brk, self.cont)
        for k, v in kw.items():
            setattr(c, k, v)
        return c


class CFG:
    def __init__(self, func):
        self.func = func
        self.nodes: list[Node] = []
        self.succ: dict[int, list[tuple[int, str | None]]] = {}
        self.pred: dict[int, list[tuple[int, str | None]]] = {}
        self.entry = self._new("entry").id
        self.exit = self._new("exit").id
        self.rexit = self._new("raise").id
        ctx = _Ctx([self.rexit], self.exit)
        outs = self._block(func.body, [(self.entry, None)], ctx, "")
        self._connect(outs, self.exit)
        self._dom = None
        self._pdom = {}

    # -- construction -----------------------------------------------------
    def _new(self, kind, astnode=None, stmt=None, copy=""):
        n = Node(len(self.nodes), kind, astnode, stmt, copy)
        self.nodes.append(n)
        self.succ[n.id] = []
        self.pred[n.id] = []
        return n

    def _edge(self, a, b, label=None):
        if (b, label) not in self.succ[a]:
            self.succ[a].append((b, label))
            self.pred[b].append((a, label))

    def _connect(self, preds, target):
        for p, lab in preds:
            self._edge(p, target, lab)

    def _exc(self, node, ctx, what=None):
        if may_raise(what if what is not None else node.ast):
            for t in ctx.exc:
                self._edge(node.id, t, "exc")

    def _block(self, stmts, preds, ctx, copy):
        for st in stmts:
            preds = self._stmt(st, preds, ctx, copy)
        return preds

    def _stmt(self, st, preds, ctx, copy):
        if isinstance(st, ast.If):
            t = self._new("test", st.test, st, copy)
            self._connect(preds, t.id)
            self._exc(t, ctx)
            outs = self._block(st.body, [(t.id, "true")], ctx, copy)
            if st.orelse:
                outs = outs + self._block(st.orelse, [(t.id, "false")], ctx,
                                          copy)
            else:
                outs = outs + [(t.id, "false")]
            return outs
        if isinstance(st, ast.While):
            t = self._new("test", st.test, st, copy)
            self._connect(preds, t.id)
            self._exc(t, ctx)
            brk = []
            lctx = ctx.derive(brk=brk, cont=t.id)
            outs = self._block(st.body, [(t.id, "true")], lctx, copy)
            self._connect(outs, t.id)
            always = (isinstance(st.test, ast.Constant)
                      and bool(st.test.value) is True)
            after = [] if always else [(t.id, "false")]
            if st.orelse:
                after = self._block(st.orelse, after, ctx, copy)
            return after + brk
        if isinstance(st, (ast.For, ast.AsyncFor)):
            h = self._new("for", st, st, copy)
            self._connect(preds, h.id)
            self._exc(h, ctx, st.iter)
            brk = []
            lctx = ctx.derive(brk=brk, cont=h.id)
            outs = self._block(st.body, [(h.id, "loop")], lctx, copy)
            self._connect(outs, h.id)
            after = [(h.id, "exhaust")]
            if st.orelse:
                after = self._block(st.orelse, after, ctx, copy)
            return after + brk
        if isinstance(st, (ast.With, ast.AsyncWith)):
            w = self._new("with", st, st, copy)
            self._connect(preds, w.id)
            if any(may_raise(i.context_expr) for i in st.items):
                for t in ctx.exc:
                    self._edge(w.id, t, "exc")
            return self._block(st.body, [(w.id, None)], ctx, copy)
        if isinstance(st, ast.Try) or (hasattr(ast, "TryStar")
                                       and isinstance(st, ast.TryStar)):
            return self._try(st, preds, ctx, copy)
        if isinstance(st, ast.Return):
            n = self._new("stmt", st, st, copy)
            self._connect(preds, n.id)
            self._exc(n, ctx)
            self._edge(n.id, ctx.ret, None)
            return []
        if isinstance(st, ast.Raise):
            n = self._new("stmt", st, st, copy)
            self._connect(preds, n.id)
            for t in ctx.exc:
                self._edge(n.id, t, "exc")
            return []
        if isinstance(st, ast.Break):
            n = self._new("stmt", st, st, copy)
            self._connect(preds, n.id)
            if ctx.brk is None:
                raise Undecided("break outside loop")
            ctx.brk.append((n.id, None))
            return []
        if isinstance(st, ast.Continue):
            n = self._new("stmt", st, st, copy)
            self._connect(preds, n.id)
            self._edge(n.id, ctx.cont, None)
            return []
        if hasattr(ast, "Match") and isinstance(st, ast.Match):
            raise Undecided("match statement not modelled")
        # simple statement (including nested def/class as a binding)
        n = self._new("stmt", st, st, copy)
        self._connect(preds, n.id)
        if not isinstance(st, (ast.FunctionDef, ast.AsyncFunctionDef,
                               ast.ClassDef)):
            self._exc(n, ctx)
        return [(n.id, None)]

    @staticmethod
    def _catch_all(h: ast.ExceptHandler) -> bool:
        if h.type is None:
            return True
        names = []
        if isinstance(h.type, ast.Tuple):
            names = [norm(e) for e in h.type.elts]
        else:
            names = [norm(h.type)]
        return "BaseException" in names

    def _try(self, st, preds, ctx, copy):
        outer = ctx
        fin_exc = fin_ret = None
        if st.finalbody:
            # exceptional copy of the finally body -> outer exception targets
            fin_exc = self._new("stmt", ast.Pass(), st, "exc")
            fin_exc.kind = "finally"
            outs = self._block(st.finalbody, [(fin_exc.id, None)], outer,
                               "exc")
            for t in outer.exc:
                self._connect(outs, t)
            # return copy of the finally body -> outer return target
            fin_ret = self._new("stmt", ast.Pass(), st, "ret")
            fin_ret.kind = "finally"
            outs = self._block(st.finalbody, [(fin_ret.id, None)], outer,
                               "ret")
            self._connect(outs, outer.ret)
            inner = outer.derive(exc=[fin_exc.id], ret=fin_ret.id)
        else:
            inner = outer
        hnodes = []
        for h in st.handlers:
            hn = self._new("except", h, st, copy)
            hnodes.append(hn)
        body_exc = [h.id for h in hnodes]
        if not any(self._catch_all(h) for h in st.handlers):
            body_exc = body_exc + inner.exc
        bctx = inner.derive(exc=body_exc)
        outs = self._block(st.body, preds, bctx, copy)
        if st.orelse:
            outs = self._block(st.orelse, outs, inner, copy)
        for hn, h in zip(hnodes, st.handlers):
            outs = outs + self._block(h.body, [(hn.id, None)], inner, copy)
        if st.finalbody:
            outs = self._block(st.finalbody, outs, outer, copy)
        return outs

    # -- queries ----------------------------------------------------------
    def node(self, i) -> Node:
        return self.nodes[i]

    def find(self, pred, kinds=None) -> list[Node]:
        out = []
        for n in self.nodes:
            if kinds and n.kind not in kinds:
                continue
            if n.ast is not None and n.kind not in ("entry", "exit", "raise")\
                    and pred(n):
                out.append(n)
        return out

    def node_of_stmt(self, st, copy="") -> Node | None:
        for n in self.nodes:
            if n.stmt is st and n.copy == copy and n.kind in (
                    "stmt", "test", "for", "with"):
                return n
        return None

    def node_containing(self, astnode, copy="") -> Node | None:
        """The CFG node whose evaluated expression/statement contains
        `astnode` (identity)."""
        for n in self.nodes:
            if n.copy != copy or n.ast is None:
                continue
            if n.kind in ("entry", "exit", "raise", "finally"):
                continue
            root = n.ast
            if n.kind == "for":
                roots = [root.iter, root.target]
            elif n.kind == "with":
                roots = [i for i in root.items]
            elif n.kind == "except":
                roots = [root.type] if root.type else []
            else:
                roots = [root]
            for r in roots:
                for x in walk_no_nested(r):
                    if x is astnode:
                        return n
        return None

    def in_finally(self, nid) -> bool:
        """Is this node part of a `finally` body (any copy)?"""
        n = self.nodes[nid]
        if n.kind == "finally":
            return True
        a = n.ast
        p = getattr(a, "_parent", None)
        while a is not None and p is not None:
            if isinstance(p, ast.Try) and any(s is a for s in p.finalbody):
                return True
            if isinstance(p, (ast.FunctionDef, ast.AsyncFunctionDef)):
                return False
            a, p = p, getattr(p, "_parent", None)
        return False

    def reach(self, srcs, avoid=(), skip_labels=(), via_first=None,
              edge_ok=None):
        """Nodes reachable from `srcs` (exclusive of srcs unless on a cycle)
        without entering `avoid`.  `via_first` restricts the first step from
        each source to edges with one of these labels.  `edge_ok(src, dst,
        label)` may veto individual edges."""
        avoid = set(avoid)
        seen = set()
        dq = deque()
        for s in srcs:
            for (t, lab) in self.succ[s]:
                if lab in skip_labels:
                    continue
                if via_first is not None and lab not in via_first:
                    continue
                if edge_ok is not None and not edge_ok(s, t, lab):
                    continue
                if t not in avoid and t not in seen:
                    seen.add(t)
                    dq.append(t)
        while dq:
            n = dq.popleft()
            for (t, lab) in self.succ[n]:
                if lab in skip_labels:
                    continue
                if edge_ok is not None and not edge_ok(n, t, lab):
                    continue
                if t not in avoid and t not in seen:
                    seen.add(t)
                    dq.append(t)
        return seen

    def path(self, src, dst, avoid=(), skip_labels=()):
        """A shortest path src..dst avoiding `avoid` (list of node ids)."""
        avoid = set(avoid)
        prev = {src: None}
        dq = deque([src])
        while dq:
            n = dq.popleft()
            if n == dst and n != src:
                break
            for (t, lab) in self.succ[n]:
                if lab in skip_labels or t in avoid or t in prev:
                    continue
                prev[t] = n
                dq.append(t)
        if dst not in prev:
            return None
        out = []
        n = dst
        while n is not None:
            out.append(n)
            n = prev[n]
        return list(reversed(out))

    def describe_path(self, path) -> list[str]:
        return [f"{self.nodes[i].lineno}: {self.nodes[i].text()}"
                for i in path]

    def dominators(self, skip_labels=()):
        key = tuple(sorted(skip_labels))
        if self._dom is None:
            self._dom = {}
        if key in self._dom:
            return self._dom[key]
        ids = [n.id for n in self.nodes]
        reach = self.reach([self.entry], skip_labels=skip_labels) | {
            self.entry}
        allset = set(reach)
        dom = {i: set(allset) for i in reach}
        dom[self.entry] = {self.entry}
        changed = True
        while changed:
            changed = False
            for i in ids:
                if i == self.entry or i not in reach:
                    continue
                ps = [p for (p, lab) in self.pred[i]
                      if p in reach and lab not in skip_labels]
                if not ps:
                    new = {i}
                else:
                    new = set.intersection(*[dom[p] for p in ps]) | {i}
                if new != dom[i]:
                    dom[i] = new
                    changed = True
        self._dom[key] = dom
        return dom

    def dominates(self, a, b, skip_labels=()) -> bool:
        dom = self.dominators(skip_labels)
        return b in dom and a in dom[b]

    def always_passes(self, src, dsts, musts, skip_labels=()) -> bool:
        """True iff every path from `src` to any node in `dsts` passes one of
        `musts` (strictly after leaving src)."""
        r = self.reach([src], avoid=musts, skip_labels=skip_labels)
        return not (r & set(dsts))

    def no_cleanup_exc(self, s, t, lab) -> bool:
        """edge filter: ignore exceptions raised by statements of a
        `finally` body themselves (a failing cleanup is out of scope)."""
        return not (lab == "exc" and self.in_finally(s))

    def normal_exits(self):
        return [self.exit]
