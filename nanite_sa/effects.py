"""Effect scans: ambient/nondeterministic reads, mutation of module-level
tables, in-place mutation of values that alias parameters.

The alias analysis is intra-procedural and flow-insensitive in the
conservative direction for *freshness*: a local is `fresh` only when every
assignment to it has a positive reason (arithmetic result, constructor,
listed copying call).  Unknown => "may alias", reported only when the
mutated name is bound to the parameter by an unbroken chain of aliasing
assignments (so an unknown callee result is never reported as a violation).
"""
from __future__ import annotations

import ast

from .astutil import (call_name, calls_in, dotted, func_params, norm,
                      stmt_targets, target_names, walk_no_nested)

AMBIENT_CALLS = {
    "time.time": "wall clock", "time.ctime": "wall clock",
    "time.perf_counter": "clock", "time.monotonic": "clock",
    "datetime.now": "wall clock", "datetime.datetime.now": "wall clock",
    "os.getenv": "environment", "os.environ.get": "environment",
    "os.getpid": "process id", "os.urandom": "entropy",
    "uuid.uuid4": "entropy", "uuid.uuid1": "entropy",
    "hash": "PYTHONHASHSEED-dependent hash()", "id": "object identity",
    "getpass.getuser": "environment",
}
AMBIENT_PREFIX = {
    "random.": "global RNG", "np.random.": "global RNG",
    "numpy.random.": "global RNG", "secrets.": "entropy",
}


def ambient_reads(func):
    """[(node, what)] for reads of clock, RNG, environment, hash()/id()."""
    out = []
    for n in walk_no_nested(func, include_self=False):
        if isinstance(n, ast.Call):
            cn = call_name(n)
            if not cn:
                continue
            if cn in AMBIENT_CALLS:
                out.append((n, AMBIENT_CALLS[cn]))
                continue
            for pre, what in AMBIENT_PREFIX.items():
                if cn.startswith(pre):
                    # a seeded local generator is fine
                    if cn.endswith((".default_rng", ".RandomState",
                                    ".seed")) and (n.args or n.keywords):
                        break
                    out.append((n, what))
                    break
        elif isinstance(n, ast.Attribute) and dotted(n) == "os.environ":
            out.append((n, "environment"))
    return out


def set_iteration(func):
    """Iteration over a set (order depends on hash seed for str keys)."""
    out = []
    for n in walk_no_nested(func, include_self=False):
        it = None
        if isinstance(n, (ast.For, ast.comprehension)):
            it = n.iter
        if it is None:
            continue
        if isinstance(it, (ast.Set, ast.SetComp)):
            out.append((it, "iteration over a set literal"))
        elif isinstance(it, ast.Call) and call_name(it) in ("set",
                                                            "frozenset"):
            out.append((it, "iteration over set(...)"))
    return out


# ---------------------------------------------------------------------------
# in-place mutators

MUT_METHODS = {"append", "extend", "insert", "remove", "pop", "update",
               "clear", "sort", "reverse", "fill", "setflags", "resize",
               "put", "setdefault", "popitem", "add", "discard", "set",
               "itemset", "partition", "byteswap"}
# methods named like mutators that are harmless on the objects we track
NOT_MUT = {"get"}

FRESH_CALLS = {
    "copy.deepcopy": "deep", "deepcopy": "deep",
    "copy.copy": "shallow", "list": "shallow", "dict": "shallow",
    "tuple": "shallow", "set": "shallow", "sorted": "shallow",
    "np.array": "deep", "np.copy": "deep", "numpy.array": "deep",
    "np.zeros_like": "deep", "np.ones_like": "deep", "np.zeros": "deep",
    "np.ones": "deep", "np.empty_like": "deep", "np.full_like": "deep",
    "np.arange": "deep", "np.linspace": "deep", "np.abs": "deep",
    "np.concatenate": "deep", "np.gradient": "deep", "np.diff": "deep",
    "np.sqrt": "deep", "np.atleast_2d": "view", "np.asarray": "view",
    "np.logical_and": "deep", "np.isnan": "deep", "np.isinf": "deep",
    "np.vstack": "deep", "float": "deep", "int": "deep", "str": "deep",
    "len": "deep", "bool": "deep",
}


def freshness(value) -> str:
    """'deep' (no aliasing with operands), 'shallow' (fresh container, old
    elements), 'view'/'alias' (shares storage), 'unknown'."""
    if isinstance(value, (ast.Constant, ast.JoinedStr)):
        return "deep"
    if isinstance(value, (ast.BinOp, ast.UnaryOp, ast.Compare, ast.BoolOp)):
        if isinstance(value, ast.BoolOp):
            return "unknown"  # `a or b` returns an operand
        return "deep"
    if isinstance(value, (ast.List, ast.Dict, ast.Tuple, ast.Set,
                          ast.ListComp, ast.DictComp, ast.SetComp)):
        return "shallow"
    if isinstance(value, ast.Call):
        cn = call_name(value)
        if cn in FRESH_CALLS:
            if cn in ("np.array", "numpy.array"):
                for kw in value.keywords:
                    if kw.arg == "copy" and isinstance(kw.value, ast.Constant)\
                            and kw.value.value is False:
                        return "view"
            return FRESH_CALLS[cn]
        if isinstance(value.func, ast.Attribute) and value.func.attr in (
                "copy", "astype", "flatten", "tolist", "tobytes", "dumps"):
            return "shallow" if value.func.attr == "copy" and not \
                _looks_array(value.func.value) else "deep"
        return "unknown"
    if isinstance(value, (ast.Name, ast.Attribute)):
        return "alias"
    if isinstance(value, ast.Subscript):
        return "alias"   # element or view of the base
    if isinstance(value, ast.IfExp):
        a, b = freshness(value.body), freshness(value.orelse)
        order = ["alias", "view", "unknown", "shallow", "deep"]
        return min(a, b, key=order.index)
    return "unknown"


def _looks_array(node) -> bool:
    return False


def base_name(node):
    """Root Name of an access path a.b[c].d -> 'a'."""
    while isinstance(node, (ast.Attribute, ast.Subscript, ast.Starred)):
        node = node.value
    return node.id if isinstance(node, ast.Name) else None


# name of a repo function -> index of the parameter its result may alias
# (filled by the caller of alias_map for the module being analysed)
RETURN_ALIAS: dict = {}


def returns_alias_of(func):
    """index of the parameter that a returned value may alias (a view or
    the object itself), or None"""
    ps = func_params(func)
    if not ps:
        return None
    al = alias_map(func, {p: f"param:{p}" for p in ps})
    for r in walk_no_nested(func, False):
        if isinstance(r, ast.Return) and r.value is not None:
            vals = r.value.elts if isinstance(r.value, ast.Tuple) else [
                r.value]
            for v in vals:
                b = base_name(v) if isinstance(
                    v, (ast.Name, ast.Subscript, ast.Attribute)) else None
                root = al.get(b, "").split(":")[-1]
                if b in al and root in ps and not al[b].startswith(
                        ("shallowof:", "holds:")) and \
                        freshness(v) in ("alias", "view"):
                    return ps.index(root)
    return None


def alias_map(func, roots):
    """local name -> root it may alias ('param:<p>' / 'elem:<p>'), following
    chains of aliasing assignments `a = b`, `a = b[k]`, `a = b.attr`,
    `for a in b`, tuple unpacking of such.  A name assigned anything else
    anywhere is still kept if at least one assignment aliases (may-alias)."""
    al = {r: r for r in roots}
    changed = True
    while changed:
        changed = False
        for n in walk_no_nested(func, include_self=False):
            pairs = []
            if isinstance(n, ast.Assign):
                for t in n.targets:
                    pairs.extend(_pair(t, n.value))
            elif isinstance(n, ast.AnnAssign) and n.value is not None:
                pairs.extend(_pair(n.target, n.value))
            elif isinstance(n, (ast.For, ast.comprehension)):
                for nm in target_names(n.target):
                    pairs.append((nm, n.iter, "elem"))
            elif isinstance(n, ast.NamedExpr):
                pairs.extend(_pair(n.target, n.value))
            for name, val, how in pairs:
                if name in al:
                    continue
                src = _alias_source(val, al)
                if src is not None:
                    al[name] = src
                    changed = True
    return al


def _pair(target, value):
    if isinstance(target, ast.Name):
        return [(target.id, value, "val")]
    if isinstance(target, (ast.Tuple, ast.List)):
        if isinstance(value, (ast.Tuple, ast.List)) and \
                len(value.elts) == len(target.elts):
            out = []
            for t, v in zip(target.elts, value.elts):
                out.extend(_pair(t, v))
            return out
        out = []
        for t in target.elts:
            for nm in target_names(t):
                out.append((nm, value, "elem"))
        return out
    return []


def _alias_source(val, al):
    fr = freshness(val)
    if fr in ("deep",):
        return None
    if isinstance(val, ast.Call):
        cn = call_name(val)
        if fr == "shallow":
            # fresh container; elements alias the argument's elements
            args = list(val.args)
            if isinstance(val.func, ast.Attribute) and \
                    val.func.attr == "copy" and not val.args:
                args = [val.func.value]      # x.copy(), not copy.copy(x)
            for a in args:
                b = base_name(a)
                if b in al:
                    return "shallowof:" + al[b].split(":")[-1]
            return None
        if fr == "view":
            for a in val.args:
                b = base_name(a)
                if b in al:
                    return al[b]
        if isinstance(val.func, ast.Name) and val.func.id in RETURN_ALIAS:
            i = RETURN_ALIAS[val.func.id]
            if i < len(val.args):
                b = base_name(val.args[i])
                if b in al:
                    return al[b]
        if isinstance(val.func, ast.Attribute) and val.func.attr in (
                "items", "values", "keys", "get", "reshape", "ravel",
                "view", "squeeze", "__getitem__"):
            b = base_name(val.func.value)
            if b in al and not al[b].startswith("shallowof:"):
                return al[b]
        return None
    if isinstance(val, (ast.List, ast.Tuple, ast.Set)):
        for e in val.elts:
            b = base_name(e) if isinstance(
                e, (ast.Name, ast.Attribute, ast.Subscript)) else None
            if b in al and isinstance(e, ast.Name):
                return "holds:" + al[b].split(":")[-1]
        return None
    if isinstance(val, ast.Dict):
        for e in val.values:
            if isinstance(e, ast.Name) and e.id in al:
                return "holds:" + al[e.id].split(":")[-1]
        return None
    if isinstance(val, ast.BinOp) and isinstance(val.op, ast.Add):
        for side in (val.left, val.right):
            if isinstance(side, ast.Name) and side.id in al and \
                    al[side.id].startswith("holds:"):
                return al[side.id]
        return None
    if isinstance(val, ast.IfExp):
        return _alias_source(val.body, al) or _alias_source(val.orelse, al)
    if isinstance(val, ast.BoolOp):
        for v in val.values:
            s = _alias_source(v, al)
            if s:
                return s
        return None
    b = base_name(val)
    if b in al:
        src = al[b]
        if src.startswith("shallowof:"):
            # element of a shallow copy is the original element
            if isinstance(val, ast.Subscript):
                return src.split(":", 1)[1]
            return src
        return src
    return None


def mutations(func, al):
    """[(node, root, how)] in-place mutations of values aliasing `al`."""
    out = []
    for n in walk_no_nested(func, include_self=False):
        if isinstance(n, ast.Assign):
            for t in n.targets:
                out.extend(_store(t, al))
        elif isinstance(n, ast.AugAssign):
            t = n.target
            if isinstance(t, ast.Name):
                if t.id in al and not al[t.id].startswith(("shallowof:",
                                                           "holds:")):
                    # x += ... on an aliased ndarray/list mutates in place
                    out.append((n, al[t.id], f"augmented assignment "
                                f"{norm(n)}"))
            else:
                out.extend(_store(t, al, aug=n))
        elif isinstance(n, ast.Delete):
            for t in n.targets:
                out.extend(_store(t, al))
        elif isinstance(n, ast.Call) and any(
                kw.arg in ("out", "output") and base_name(kw.value) in al
                for kw in n.keywords):
            # numpy/scipy write their result into `out=` / `output=`
            kw = [k for k in n.keywords if k.arg in ("out", "output")][0]
            src = al[base_name(kw.value)]
            if not (src.startswith(("shallowof:", "holds:"))):
                out.append((n, src.split(":")[-1],
                            f"{kw.arg}={norm(kw.value)} in {norm(n)[:60]}"))
        elif isinstance(n, ast.Call) and isinstance(n.func, ast.Attribute) \
                and n.func.attr in MUT_METHODS:
            b = base_name(n.func.value)
            if b in al:
                src = al[b]
                if src.startswith(("shallowof:", "holds:")) and isinstance(
                        n.func.value, ast.Name):
                    continue  # mutating the fresh container itself
                out.append((n, src.split(":")[-1],
                            f"call {norm(n)[:80]}"))
    return out


def _store(t, al, aug=None):
    out = []
    if isinstance(t, (ast.Subscript, ast.Attribute)):
        b = base_name(t)
        if b in al:
            src = al[b]
            if src.startswith(("shallowof:", "holds:")) and isinstance(
                    t.value, ast.Name):
                return out  # store into the fresh container
            out.append((aug or t, src.split(":")[-1],
                        f"store to {norm(t)}"))
    elif isinstance(t, (ast.Tuple, ast.List)):
        for e in t.elts:
            out.extend(_store(e, al, aug))
    return out


def module_tables(mod) -> set[str]:
    """Module-level names bound to mutable literals (dict/list/set)."""
    out = set()
    for name, vals in mod.assigns.items():
        v = vals[-1]
        if isinstance(v, (ast.Dict, ast.List, ast.Set)) or (
                isinstance(v, ast.Call) and call_name(v) in (
                    "dict", "list", "set", "OrderedDict")):
            out.add(name)
    return out
