"""Error discipline (shared rule `<ID>-RE`).

An exception that the anchored code catches with a *broad* handler (bare
`except`, `Exception`, `BaseException`) must leave the handler again on every
path (re-raised, or converted into one of the documented errors): a broad
handler that returns or falls through turns every failure inside the `try`
- including the refusals and model errors the properties demand - into a
normal-looking result.  Narrow handlers (KeyError, ValueError, ...) are the
library's documented fallbacks and are not judged here.  The two broad
swallowing handlers of the pinned tree are listed with their reason."""
from __future__ import annotations

import ast

from .astutil import norm
from .cfg import CFG

BROAD = {"Exception", "BaseException", "builtins.Exception",
         "builtins.BaseException"}
BASELINE = {
    ("smooth", "smooth_axis_monotone"): "the documented fallback for the "
    "spacing of tied values at the end of the array",
    ("read", "get_data_paths_enum"): "documented `skip_errors` option "
    "(re-raised unless the caller asked to skip unreadable files)",
}


def _is_broad(h):
    if h.type is None:
        return True
    ts = h.type.elts if isinstance(h.type, ast.Tuple) else [h.type]
    return any(norm(t) in BROAD for t in ts)


def _always_leaves(body):
    """every path through `body` ends in raise"""
    if not body:
        return False
    last = body[-1]
    if isinstance(last, ast.Raise):
        return True
    if isinstance(last, ast.If) and last.orelse:
        return _always_leaves(last.body) and _always_leaves(last.orelse)
    if isinstance(last, ast.With):
        return _always_leaves(last.body)
    return False


def rule(ctx, files):
    repo = ctx.repo
    n = 0
    for m in repo.modules.values():
        if m.relpath not in files:
            continue
        for q, fn in m.funcs.items():
            if getattr(fn, "_inlined_helper", False):
                continue
            for h in ast.walk(fn):
                if not isinstance(h, ast.ExceptHandler) or not _is_broad(h):
                    continue
                # handlers of nested functions are judged with those
                n += 1
                if _always_leaves(h.body) and not any(
                        isinstance(x, (ast.Return, ast.Continue, ast.Break))
                        for s in h.body for x in ast.walk(s)):
                    ctx.ok(h, f"{m.name}.{q}: broad handler re-raises")
                    continue
                why = BASELINE.get((m.name, q.split(".")[-1])) or \
                    BASELINE.get((m.name, q))
                if not why and "." not in q and q.startswith("_"):
                    # a private helper that only the accepted function
                    # calls: the accepted handler moved with its code
                    callers = {q2 for q2, f2 in m.funcs.items()
                               if f2 is not fn and any(
                                   isinstance(c, ast.Call) and isinstance(
                                       c.func, ast.Name) and c.func.id == q
                                   for c in ast.walk(f2))}
                    whys = {BASELINE.get((m.name, c)) for c in callers}
                    if callers and None not in whys and len(whys) == 1:
                        why = whys.pop()
                if why:
                    ctx.ok(h, f"{m.name}.{q}: {why}")
                    continue
                t = norm(h.type) if h.type is not None else "everything"
                ctx.fail(h, f"{m.name}.{q}: `except {t}` swallows",
                         f"{m.relpath}:{q} catches {t} and does not "
                         "re-raise on every path: any failure inside the "
                         "`try` (including the refusals and documented "
                         "errors) is turned into a normal result")
    ctx.note(f"{n} broad exception handler(s) examined in the anchored code")
