"""Exact normal form for the closed-form model expressions.

A value is a rational function num/den; num and den are polynomials: dicts
monomial -> Fraction, a monomial being a sorted tuple of (atom, exponent)
with Fraction exponents.  Atoms are symbols, opaque function applications
`tan(<canonical argument>)`, or opaque bases `{<canonical rational
function>}` (a sum raised to a non-integer power).  Decimal literals are
converted exactly from their source text.  Equality is decided by cross
multiplication of fully expanded polynomials.
"""
from __future__ import annotations

import ast
import math
from fractions import Fraction

from .astutil import dotted, norm, number_fraction
from .loader import Undecided

ONE = ()


def _mono_mul(a, b):
    d = dict(a)
    for k, e in b:
        d[k] = d.get(k, Fraction(0)) + e
    return tuple(sorted((k, e) for k, e in d.items() if e != 0))


def _poly_add(p, q, sign=1):
    out = dict(p)
    for m, c in q.items():
        out[m] = out.get(m, Fraction(0)) + sign * c
    return {m: c for m, c in out.items() if c != 0}


def _poly_mul(p, q):
    out = {}
    for m1, c1 in p.items():
        for m2, c2 in q.items():
            m = _mono_mul(m1, m2)
            out[m] = out.get(m, Fraction(0)) + c1 * c2
    return {m: c for m, c in out.items() if c != 0}


def _poly_str(p):
    if not p:
        return "0"
    parts = []
    for m in sorted(p):
        c = p[m]
        ms = "*".join(f"{k}^{e}" if e != 1 else k for k, e in m)
        parts.append(f"{c}" + (f"*{ms}" if ms else ""))
    return " + ".join(parts)


def _perfect_root(fr: Fraction, e: Fraction):
    """fr ** e as an exact Fraction, or None."""
    if fr < 0:
        return None
    n, d = e.numerator, e.denominator

    def iroot(x, k):
        if x == 0:
            return 0
        r = round(x ** (1.0 / k))
        for cand in (r - 1, r, r + 1):
            if cand >= 0 and cand ** k == x:
                return cand
        return None
    a, b = iroot(fr.numerator, d), iroot(fr.denominator, d)
    if a is None or b is None:
        return None
    base = Fraction(a, b)
    if n >= 0:
        return base ** n
    if base == 0:
        return None
    return Fraction(1) / (base ** (-n))


class RF:
    """rational function num/den"""
    __slots__ = ("num", "den")

    def __init__(self, num, den=None):
        self.num = num
        self.den = den if den is not None else {ONE: Fraction(1)}
        if not self.den:
            raise Undecided("division by a zero expression")
        self._simplify()

    # -- constructors --
    @staticmethod
    def const(v):
        v = Fraction(v)
        return RF({ONE: v} if v != 0 else {})

    @staticmethod
    def sym(name):
        return RF({((name, Fraction(1)),): Fraction(1)})

    def _simplify(self):
        # cancel a common monomial factor and a monomial denominator
        if len(self.den) == 1:
            (m, c), = self.den.items()
            inv = tuple((k, -e) for k, e in m)
            self.num = {_mono_mul(mm, inv): cc / c
                        for mm, cc in self.num.items()}
            self.den = {ONE: Fraction(1)}

    # -- predicates --
    def is_zero(self):
        return not self.num

    def constant(self):
        if self.is_zero():
            return Fraction(0)
        if len(self.num) == 1 and ONE in self.num and \
                len(self.den) == 1 and ONE in self.den:
            return self.num[ONE] / self.den[ONE]
        return None

    def is_monomial(self):
        return len(self.num) == 1 and len(self.den) == 1

    # -- arithmetic --
    def __add__(self, o):
        return RF(_poly_add(_poly_mul(self.num, o.den),
                            _poly_mul(o.num, self.den)),
                  _poly_mul(self.den, o.den))

    def __sub__(self, o):
        return RF(_poly_add(_poly_mul(self.num, o.den),
                            _poly_mul(o.num, self.den), -1),
                  _poly_mul(self.den, o.den))

    def __mul__(self, o):
        return RF(_poly_mul(self.num, o.num), _poly_mul(self.den, o.den))

    def __truediv__(self, o):
        if o.is_zero():
            raise Undecided("division by zero in formula")
        return RF(_poly_mul(self.num, o.den), _poly_mul(self.den, o.num))

    def __neg__(self):
        return RF({m: -c for m, c in self.num.items()}, dict(self.den))

    def __eq__(self, o):
        return _poly_add(_poly_mul(self.num, o.den),
                         _poly_mul(o.num, self.den), -1) == {}

    def __hash__(self):
        return hash(self.canon())

    def canon(self):
        if len(self.den) == 1 and ONE in self.den and self.den[ONE] == 1:
            return _poly_str(self.num)
        return f"({_poly_str(self.num)})/({_poly_str(self.den)})"

    def pow(self, e: Fraction):
        if e == 0:
            return RF.const(1)
        if self.is_zero():
            if e > 0:
                return RF.const(0)
            raise Undecided("0 raised to a negative power")
        if e.denominator == 1:
            n = abs(e.numerator)
            out = RF.const(1)
            for _ in range(n):
                out = out * self
            return out if e > 0 else RF.const(1) / out
        if self.is_monomial():
            (mn, cn), = self.num.items()
            (md, cd), = self.den.items()
            c = cn / cd
            m = _mono_mul(mn, tuple((k, -x) for k, x in md))
            newm = tuple((k, x * e) for k, x in m)
            cr = _perfect_root(c, e)
            if cr is None:
                if c < 0:
                    raise Undecided("negative number to a fractional power")
                newm = _mono_mul(newm, ((f"num({c})", e),))
                cr = Fraction(1)
            return RF({tuple(sorted(newm)): cr})
        # opaque base: normalise to a primitive representative so that
        # (a*X)^e and X^e share the atom
        atom = "{" + self.canon() + "}"
        return RF({((atom, e),): Fraction(1)})

    def subs(self, mapping):
        """substitute symbols (plain atoms only) by RFs"""
        def poly(p):
            out = RF.const(0)
            for m, c in p.items():
                term = RF.const(c)
                for k, e in m:
                    if k in mapping:
                        term = term * mapping[k].pow(e)
                    elif k.startswith(("tan(", "sin(", "cos(", "exp(",
                                       "log(")) and k.endswith(")") and \
                            k[k.index("(") + 1:-1] in mapping:
                        # f(<symbol>) with the symbol replaced: the atom of
                        # the replaced argument
                        inner = mapping[k[k.index("(") + 1:-1]].canon()
                        k2 = f"{k[:k.index('(')]}({inner})"
                        term = term * RF({((k2, e),): Fraction(1)})
                    elif k in _FUNC_ARGS and any(s in k for s in mapping):
                        # f(<argument>) with symbols of the argument
                        # replaced: the atom of the substituted argument
                        fname_, arg_ = _FUNC_ARGS[k]
                        term = term * func_atom(
                            fname_, arg_.subs(mapping)).pow(e)
                    elif k.startswith(("{", "tan(", "sin(", "cos(", "exp(",
                                       "log(")) and any(
                                           s in k for s in mapping):
                        raise Undecided("substitution inside an opaque atom")
                    else:
                        term = term * RF({((k, e),): Fraction(1)})
                out = out + term
            return out
        return poly(self.num) / poly(self.den)

    def symbols(self):
        out = set()
        for p in (self.num, self.den):
            for m in p:
                for k, _e in m:
                    out.add(k)
        return out

    def mentions(self, name):
        import re
        pat = re.compile(r"(?<![A-Za-z0-9_])" + re.escape(name)
                         + r"(?![A-Za-z0-9_])")
        return any(pat.search(k) for k in self.symbols())

    def degree_range(self, name):
        """(min, max) exponent of symbol over the monomials of num, minus the
        same for den when den is a monomial; None if den is a sum that
        mentions the symbol."""
        def rng(p):
            es = []
            for m in p:
                d = dict(m)
                es.append(d.get(name, Fraction(0)))
            return (min(es), max(es)) if es else (Fraction(0), Fraction(0))
        n = rng(self.num)
        if len(self.den) == 1:
            d = rng(self.den)
            return (n[0] - d[0], n[1] - d[1])
        if any(name == k for m in self.den for k, _ in m):
            return None
        return n


FUNCS = {"tan", "sin", "cos", "exp", "log", "arctan", "tanh"}


_FUNC_ARGS = {}   # atom text -> (function name, argument RF)


def func_atom(name, arg: RF) -> RF:
    key = f"{name}({arg.canon()})"
    _FUNC_ARGS[key] = (name, arg)
    return RF({((key, Fraction(1)),): Fraction(1)})


# ---------------------------------------------------------------------------
# Python expressions

def from_py(expr, env, on_subscript=None, on_call=None):
    """Evaluate a Python arithmetic expression to an RF.  `env` maps names to
    RFs; `on_subscript(node)` may resolve subscripts (mask indexing);
    `on_call(node, ev)` may resolve calls the table below does not know."""
    def ev(n):
        fr = number_fraction(n)
        if fr is not None:
            return RF.const(fr)
        if isinstance(n, (ast.List, ast.Tuple)):
            return [ev(e) for e in n.elts]
        if isinstance(n, ast.Name):
            if n.id in env:
                return env[n.id]
            if n.id == "pi":
                return RF.sym("pi")
            raise Undecided(f"unknown name {n.id} in formula")
        if isinstance(n, ast.Attribute):
            d = dotted(n)
            if d in ("np.pi", "numpy.pi", "math.pi"):
                return RF.sym("pi")
            raise Undecided(f"unknown attribute {d}")
        if isinstance(n, ast.UnaryOp):
            if isinstance(n.op, ast.USub):
                return -ev(n.operand)
            if isinstance(n.op, ast.UAdd):
                return ev(n.operand)
        if isinstance(n, ast.BinOp):
            if isinstance(n.op, ast.Pow):
                b, e = ev(n.left), ev(n.right)
                c = e.constant()
                if c is None:
                    raise Undecided("non-constant exponent " + norm(n.right))
                return b.pow(c)
            a, b = ev(n.left), ev(n.right)
            if isinstance(n.op, ast.Add):
                return a + b
            if isinstance(n.op, ast.Sub):
                return a - b
            if isinstance(n.op, ast.Mult):
                return a * b
            if isinstance(n.op, ast.Div):
                return a / b
        if isinstance(n, ast.Call):
            d = dotted(n.func) or ""
            short = d.split(".")[-1]
            if short == "sqrt" and len(n.args) == 1:
                return ev(n.args[0]).pow(Fraction(1, 2))
            if short in ("power",) and len(n.args) == 2:
                c = ev(n.args[1]).constant()
                if c is None:
                    raise Undecided("non-constant exponent")
                return ev(n.args[0]).pow(c)
            if short in FUNCS and len(n.args) == 1:
                return func_atom(short, ev(n.args[0]))
            if short == "polyval" and len(n.args) == 2:
                coeffs = None
                if isinstance(n.args[0], (ast.List, ast.Tuple)):
                    coeffs = [ev(c) for c in n.args[0].elts]
                elif isinstance(n.args[0], ast.Name) and isinstance(
                        env.get(n.args[0].id), list):
                    coeffs = env[n.args[0].id]
                if coeffs is not None:
                    x = ev(n.args[1])
                    out = RF.const(0)
                    for c in coeffs:
                        out = out * x + c
                    return out
            if short in ("deg2rad", "radians") and len(n.args) == 1:
                return ev(n.args[0]) * RF.sym("pi") / RF.const(180)
            if short in ("abs", "absolute") and len(n.args) == 1:
                raise Undecided("abs() in a model formula")
            if on_call is not None:
                r = on_call(n, ev)
                if r is not None:
                    return r
            raise Undecided(f"unknown function {d} in formula")
        if isinstance(n, ast.Subscript) and on_subscript is not None:
            r = on_subscript(n, ev)
            if r is not None:
                return r
        raise Undecided(f"cannot interpret {norm(n)[:60]} as a formula")
    return ev(expr)


# ---------------------------------------------------------------------------
# LaTeX subset

GREEK = {"delta": "delta", "nu": "nu", "alpha": "alpha", "xi": "xi",
         "pi": "pi", "rho": "rho", "beta": "beta", "theta": "theta",
         "gamma": "gamma"}


class _Tok:
    def __init__(self, s):
        self.toks = self._lex(s)
        self.i = 0

    @staticmethod
    def _lex(s):
        out = []
        i = 0
        while i < len(s):
            c = s[i]
            if c.isspace() or c == "&":
                i += 1
                continue
            if c == "\\":
                j = i + 1
                if j < len(s) and not s[j].isalpha():
                    # \, \; \! spacing or \\ linebreak
                    out.append(("cmd", s[i:j + 1]))
                    i = j + 1
                    continue
                while j < len(s) and s[j].isalpha():
                    j += 1
                out.append(("cmd", s[i + 1:j]))
                i = j
                continue
            if c.isdigit() or (c == "." and i + 1 < len(s)
                               and s[i + 1].isdigit()):
                j = i
                while j < len(s) and (s[j].isdigit() or s[j] == "."):
                    j += 1
                out.append(("num", s[i:j]))
                i = j
                continue
            if c.isalpha():
                out.append(("let", c))
                i += 1
                continue
            out.append(("sym", c))
            i += 1
        return out

    def peek(self):
        return self.toks[self.i] if self.i < len(self.toks) else ("eof", "")

    def next(self):
        t = self.peek()
        self.i += 1
        return t

    def accept(self, kind, val=None):
        t = self.peek()
        if t[0] == kind and (val is None or t[1] == val):
            self.i += 1
            return True
        return False


class LatexParser:
    """Parses one right-hand side into an RF with symbols from `env`
    (unknown names become symbols)."""

    SKIP = {"left", "right", ",", ";", "!", "quad", "qquad", "displaystyle"}

    def __init__(self, text, env=None, degree_symbols=()):
        self.t = _Tok(text)
        self.env = env or {}
        self.deg = set(degree_symbols)

    def parse(self):
        v = self.expr()
        if self.t.peek()[0] != "eof":
            raise Undecided(f"trailing LaTeX token {self.t.peek()}")
        return v

    def _skip(self):
        while True:
            k, v = self.t.peek()
            if k == "cmd" and (v in self.SKIP or v in ("\\,", "\\;", "\\!",
                                                       "\\ ")):
                self.t.next()
            else:
                break

    def expr(self):
        self._skip()
        sign = 1
        if self.t.accept("sym", "-"):
            sign = -1
        elif self.t.accept("sym", "+"):
            pass
        v = self.term()
        if sign < 0:
            v = -v
        while True:
            self._skip()
            if self.t.accept("sym", "+"):
                v = v + self.term()
            elif self.t.accept("sym", "-"):
                v = v - self.term()
            else:
                return v

    def _starts_factor(self):
        self._skip()
        k, v = self.t.peek()
        if k in ("num", "let"):
            return True
        if k == "cmd" and (v in ("frac", "sqrt", "mathrm", "text", "cdot",
                                 "times") or v in GREEK or v in FUNCS):
            return True
        if k == "sym" and v in ("(", "{"):
            return True
        return False

    def term(self):
        v = self.factor()
        while True:
            self._skip()
            k, x = self.t.peek()
            if k == "cmd" and x in ("cdot", "times"):
                self.t.next()
                v = v * self.factor()
            elif k == "sym" and x == "*":
                self.t.next()
                v = v * self.factor()
            elif k == "sym" and x == "/":
                self.t.next()
                v = v / self.factor()
            elif self._starts_factor():
                v = v * self.factor()
            else:
                return v

    def group(self):
        """{ expr } or a single token"""
        self._skip()
        if self.t.accept("sym", "{"):
            v = self.expr()
            if not self.t.accept("sym", "}"):
                raise Undecided("unbalanced { in LaTeX")
            return v
        return self.base(no_script=True)

    def factor(self):
        b = self.base()
        return b

    def _scripts(self, name_or_val, is_name):
        """handle _sub and ^sup after a base"""
        sub = ""
        exp = None
        star = False
        while True:
            k, v = self.t.peek()
            if k == "sym" and v == "_":
                self.t.next()
                sub += self._subscript()
            elif k == "sym" and v == "^":
                self.t.next()
                if self.t.accept("sym", "*"):
                    star = True
                    continue
                e = self.group()
                c = e.constant()
                if c is None:
                    raise Undecided("non-constant LaTeX exponent")
                exp = c if exp is None else exp * c
            else:
                break
        return sub, exp, star

    def _subscript(self):
        self._skip()
        if self.t.accept("sym", "{"):
            out = ""
            depth = 1
            while depth:
                k, v = self.t.next()
                if k == "eof":
                    raise Undecided("unbalanced subscript")
                if k == "sym" and v == "{":
                    depth += 1
                elif k == "sym" and v == "}":
                    depth -= 1
                elif k == "cmd" and v in ("mathrm", "text", "mathit"):
                    continue
                elif k in ("let", "num"):
                    out += v
                elif k == "cmd":
                    out += v
            return out
        k, v = self.t.next()
        if k == "cmd" and v in ("mathrm", "text", "mathit"):
            return self._subscript()
        return v

    def _symbol(self, name):
        if name in self.env:
            return self.env[name]
        return RF.sym(name)

    def base(self, no_script=False):
        self._skip()
        k, v = self.t.next()
        if k == "num":
            val = RF.const(Fraction(v))
            if no_script:
                return val
            sub, exp, _ = self._scripts(val, False)
            return val.pow(exp) if exp is not None else val
        if k == "sym" and v == "(":
            val = self.expr()
            self._skip()
            if not self.t.accept("sym", ")"):
                raise Undecided("unbalanced ( in LaTeX")
            sub, exp, _ = self._scripts(val, False)
            return val.pow(exp) if exp is not None else val
        if k == "sym" and v == "{":
            val = self.expr()
            if not self.t.accept("sym", "}"):
                raise Undecided("unbalanced { in LaTeX")
            sub, exp, _ = self._scripts(val, False)
            return val.pow(exp) if exp is not None else val
        if k == "cmd" and v == "frac":
            a = self.group()
            b = self.group()
            val = a / b
            sub, exp, _ = self._scripts(val, False)
            return val.pow(exp) if exp is not None else val
        if k == "cmd" and v == "sqrt":
            a = self.group()
            val = a.pow(Fraction(1, 2))
            sub, exp, _ = self._scripts(val, False)
            return val.pow(exp) if exp is not None else val
        if k == "cmd" and v in FUNCS:
            # \tan^2 x is not used; argument is the next factor
            arg = self.base()
            if any(arg == RF.sym(s) for s in self.deg):
                arg = arg * RF.sym("pi") / RF.const(180)
            return func_atom(v, arg)
        if k == "cmd" and v in ("mathrm", "text"):
            name = self._subscript()
            return self._named(name, no_script)
        if k == "cmd" and v in GREEK:
            return self._named(GREEK[v], no_script)
        if k == "let":
            return self._named(v, no_script)
        raise Undecided(f"unexpected LaTeX token {k}:{v}")

    def _named(self, name, no_script):
        if no_script:
            return self._symbol(name)
        sub, exp, star = self._scripts(name, True)
        full = name + ("_" + sub if sub else "") + ("_star" if star else "")
        val = self._symbol(full)
        return val.pow(exp) if exp is not None else val


def latex_equations(block: str):
    """[(lhs_text, rhs_text)] of a math block (equations separated by blank
    lines or \\\\)."""
    import re
    chunks = re.split(r"\n\s*\n|\\\\", block)
    out = []
    for ch in chunks:
        ch = ch.strip().rstrip(",.")
        if not ch:
            continue
        ch = ch.replace("&=", "=")
        if "=" not in ch:
            continue
        lhs, rhs = ch.split("=", 1)
        out.append((lhs.strip(), rhs.strip()))
    return out


def math_blocks(doc: str):
    """contents of `.. math::` directive blocks of a docstring"""
    lines = doc.splitlines()
    out = []
    i = 0
    while i < len(lines):
        ln = lines[i]
        if ln.strip().startswith(".. math::"):
            ind = len(ln) - len(ln.lstrip())
            j = i + 1
            body = []
            while j < len(lines):
                l2 = lines[j]
                if l2.strip() == "":
                    body.append("")
                    j += 1
                    continue
                if len(l2) - len(l2.lstrip()) <= ind:
                    break
                body.append(l2)
                j += 1
            out.append("\n".join(body))
            i = j
        else:
            i += 1
    return out


def inline_math(doc: str):
    import re
    return re.findall(r":math:`([^`]*)`", doc)


# ---------------------------------------------------------------------------
# truncated power series with Fraction coefficients

def ps_mul(a, b, n):
    out = [Fraction(0)] * n
    for i, x in enumerate(a[:n]):
        if x == 0:
            continue
        for j, y in enumerate(b[:n - i]):
            out[i + j] += x * y
    return out


def ps_pow(a, e: Fraction, n):
    """(a0 + a1 w + ...)^e with a0 == 1, by the J.C.P. Miller recurrence"""
    assert a[0] == 1
    out = [Fraction(0)] * n
    out[0] = Fraction(1)
    for k in range(1, n):
        s = Fraction(0)
        for j in range(1, k + 1):
            if j < len(a):
                s += (e * j - (k - j)) * a[j] * out[k - j]
        out[k] = s / k
    return out


def sneddon_sphere_coefficients(nterms=5):
    """Coefficients c_k of F = 4/3 E* sqrt(R) d^(3/2) * sum c_k (d/R)^k for
    Sneddon's implicit sphere solution, by exact series reversion.

    With u = a/R, w = u^2:  d/R = w*H(w), H = sum_k w^k/(2k+1);
    F/(E* R^2 u^3) = G(w) = sum_k (1/(2k+1) + 1/(2k+3)) w^k.
    Matching G = 4/3 * H^(3/2) * sum_k c_k (w H)^k order by order."""
    n = nterms
    H = [Fraction(1, 2 * k + 1) for k in range(n)]
    G = [Fraction(1, 2 * k + 1) + Fraction(1, 2 * k + 3) for k in range(n)]
    H32 = ps_pow(H, Fraction(3, 2), n)
    # powers of (w H): (wH)^k = w^k H^k
    Hk = [[Fraction(1)] + [Fraction(0)] * (n - 1)]
    for k in range(1, n):
        Hk.append(ps_mul(Hk[-1], H, n))
    c = []
    for k in range(n):
        # coefficient of w^k: G[k] = 4/3 * sum_{j<=k} c_j * [w^(k-j)](H32*H^j)
        acc = Fraction(0)
        for j in range(k):
            term = ps_mul(H32, Hk[j], n)
            acc += c[j] * term[k - j]
        lead = ps_mul(H32, Hk[k], n)[0]
        c.append((G[k] / Fraction(4, 3) - acc) / lead)
    return c
