"""Driver: `python -m nanite_sa <ID> [--tier quick|thorough] [--replay P]`.

Exit 0: every rule instance holds (or is a listed known finding).
Exit 1: `VIOLATION property=<id> replay=<path>` for an unlisted failure.
Exit 2: `ANALYSIS-ERROR` (anchor vanished, idiom not recognised, engine bug).
"""
from __future__ import annotations

import argparse
import importlib
import json
import os
import sys
import time
import traceback

from . import report
from .loader import AnchorError, Repo, Undecided


def _anchored_files(pid):
    here = os.path.dirname(os.path.dirname(os.path.abspath(__file__)))
    try:
        for line in open(os.path.join(here, "properties.jsonl")):
            d = json.loads(line)
            if d.get("id") == pid:
                return set(d.get("anchors", {}).get("files", []))
    except OSError:
        pass
    return set()


def run_property(pid, tier, repo, seed=0, strict=False):
    """Run every rule.  A rule that cannot decide (vanished anchor,
    unrecognised shape, engine exception) is recorded in `ctx.undecided`
    and the remaining rules still run: a violation found by another rule
    stands, "cannot decide" is reported only when nothing was violated.
    `strict=True` re-raises immediately (used by the variant self-test)."""
    mod = importlib.import_module(f"nanite_sa.props.{pid.lower()}")
    ctx = report.Ctx(pid, tier, repo, seed)
    ctx.undecided = []
    rules = list(mod.RULES)
    files = _anchored_files(pid) | set(getattr(mod, "MEMO_FILES", ()))
    if files:
        from . import memo
        rules.append((f"{pid}-RM", "memoisation in and below the anchored "
                      "code depends on its arguments only",
                      lambda c, files=files: memo.rule(c, files)))
        from . import nonedefault
        rules.append((f"{pid}-RN", "optional (None-default) parameters of "
                      "the anchored code are never dereferenced unguarded",
                      lambda c, files=files: nonedefault.rule(c, files)))
        from . import swallow
        rules.append((f"{pid}-RE", "broad exception handlers of the "
                      "anchored code re-raise on every path",
                      lambda c, files=files: swallow.rule(c, files)))
    if tier == "thorough":
        rules += list(getattr(mod, "THOROUGH_RULES", []))
    for rid, _title, fn in rules:
        ctx.rule = rid
        try:
            fn(ctx)
        except (AnchorError, Undecided) as e:
            if strict:
                raise
            ctx.undecided.append((rid, f"{type(e).__name__}: {e}"))
        except Exception as e:      # engine bug: never a silent pass
            if strict:
                raise
            ctx.undecided.append((rid, "engine exception: " + "".join(
                traceback.format_exception_only(type(e), e)).strip()
                + " @ " + traceback.format_tb(e.__traceback__)[-1].strip()
                .replace("\n", " ")))
    return mod, ctx


def main(argv=None):
    ap = argparse.ArgumentParser(prog="nanite_sa")
    ap.add_argument("pid")
    ap.add_argument("--tier", default=os.environ.get("VERIF_TIER", "quick"),
                    choices=["quick", "thorough"])
    ap.add_argument("--replay", default=None)
    ap.add_argument("--no-evidence", action="store_true")
    args = ap.parse_args(argv)
    pid = args.pid.upper()
    try:
        seed = int(os.environ.get("VERIF_SEED", "0"))
    except ValueError:
        seed = 0
    t0 = time.time()
    try:
        repo = Repo()
        mod, ctx = run_property(pid, args.tier, repo, seed)
        extra = {}
        if args.tier == "thorough":
            from . import variants
            extra = variants.run(pid, repo, seed)
    except (AnchorError, Undecided) as e:
        print(f"ANALYSIS-ERROR property={pid} {type(e).__name__}: {e}")
        return 2
    except Exception:
        traceback.print_exc()
        print(f"ANALYSIS-ERROR property={pid} engine exception")
        return 2

    findings, _fixed = report.load_known()
    fails = ctx.failures()
    known_hits = []
    new = []
    seen = set()
    for inst in fails:
        k = inst.key(pid)
        if k in seen:
            continue
        seen.add(k)
        hit = report.match_known(pid, inst, findings)
        if hit:
            known_hits.append(hit.get("id", inst.rule))
            print(f"KNOWN-FINDING: property={pid} {inst.rule} "
                  f"{inst.file}:{inst.line} {inst.function}: "
                  f"{hit.get('what', inst.message)}")
        else:
            new.append(inst)

    if args.replay:
        want = json.loads(open(args.replay).read())
        still = [i for i in fails if i.rule == want.get("rule")
                 and i.file == want.get("file")
                 and i.function == want.get("function")
                 and i.construct == want.get("construct")]
        if still:
            i = still[0]
            print(f"REPLAY: still failing: {i.rule} {i.file}:{i.line} "
                  f"{i.function}: {i.message}")
            print(f"VIOLATION property={pid} replay={args.replay}")
            return 1
        print("REPLAY: the recorded instance no longer fails")
        return 0

    nok = sum(1 for i in ctx.instances if i.status == "ok")
    print(f"[{pid}] tier={args.tier} rules={len(mod.RULES)} "
          f"instances={len(ctx.instances)} ok={nok} "
          f"known={len(known_hits)} new-failures={len(new)} "
          f"functions={len(ctx.analysed_functions)} "
          f"({time.time() - t0:.2f}s)")
    if extra.get("variants"):
        v = extra["variants"]
        print(f"[{pid}] variants: breaks fired {v['breaks_fired']}/"
              f"{v['breaks']}, benign silent {v['benign_silent']}/"
              f"{v['benign']}, skipped {v['skipped']}")
    rc = 0
    if extra.get("variant_errors"):
        for e in extra["variant_errors"]:
            print(f"ANALYSIS-ERROR property={pid} variant self-test: {e}")
        rc = 2
    if not args.no_evidence:
        report.write_evidence(pid, args.tier, seed, ctx, mod,
                              time.time() - t0, len(new), known_hits, extra)
    for rid, why in getattr(ctx, "undecided", []):
        if new:
            print(f"UNDECIDED property={pid} {rid}: {why}")
        else:
            print(f"ANALYSIS-ERROR property={pid} {rid}: {why}")
            rc = 2
    for n, inst in enumerate(new):
        rp = report.write_replay(pid, n, inst)
        print(f"{inst.rule} {inst.file}:{inst.line} {inst.function}: "
              f"{inst.message}   [{inst.construct}]")
        for step in inst.path:
            print(f"      path: {step}")
        print(f"VIOLATION property={pid} replay={rp}")
        rc = 1
    return rc


if __name__ == "__main__":
    sys.exit(main())
