"""Facts re-read from the repository on every run and shared by rules."""
from __future__ import annotations

import ast
from functools import lru_cache

from .astutil import (Opaque, call_name, const_str, dotted, literal, norm,
                      sub_key, walk_no_nested)
from .loader import AnchorError, Repo, Undecided


def fp_default(repo: Repo) -> dict:
    v = literal(repo.mod("fit").assign("FP_DEFAULT"))
    if not isinstance(v, dict) or not v:
        raise AnchorError("fit.FP_DEFAULT is not a literal dict")
    return v


def fp_results(repo: Repo) -> list:
    v = literal(repo.mod("fit").assign("FP_RESULTS"))
    if not isinstance(v, list) or not v:
        raise AnchorError("fit.FP_RESULTS is not a literal list")
    return v


# --- fit-properties receivers ------------------------------------------------

FP_ATTRS = ("fit_properties", "_fit_properties", "fp")


def is_fp_receiver(node, aliases=frozenset(), in_fp_class=False) -> bool:
    """Does this expression denote a FitProperties object?"""
    if isinstance(node, ast.Attribute) and node.attr in FP_ATTRS:
        return True
    if isinstance(node, ast.Name):
        if node.id in aliases:
            return True
        if in_fp_class and node.id == "self":
            return True
    return False


def fp_aliases(func) -> set[str]:
    """Local names assigned (only) from a fit-properties receiver."""
    al = set()
    changed = True
    while changed:
        changed = False
        for n in walk_no_nested(func, include_self=False):
            if isinstance(n, ast.Assign) and len(n.targets) == 1 \
                    and isinstance(n.targets[0], ast.Name):
                if is_fp_receiver(n.value, al) and n.targets[0].id not in al:
                    al.add(n.targets[0].id)
                    changed = True
    return al


def class_of(func) -> str | None:
    p = getattr(func, "_parent", None)
    return p.name if isinstance(p, ast.ClassDef) else None


class KeyUse:
    __slots__ = ("kind", "key", "node", "func", "recv")

    def __init__(self, kind, key, node, func, recv):
        self.kind = kind    # read get in write pop update del
        self.key = key      # str, or None for a non-literal key
        self.node = node
        self.func = func
        self.recv = recv


def fp_key_uses(func) -> list[KeyUse]:
    """All uses of literal (and non-literal) keys on fit-properties receivers
    in one function."""
    al = fp_aliases(func)
    infp = class_of(func) == "FitProperties"
    out = []
    for n in walk_no_nested(func, include_self=False):
        if isinstance(n, ast.Subscript) and is_fp_receiver(n.value, al, infp):
            key = const_str(n.slice)
            if isinstance(n.ctx, ast.Store):
                kind = "write"
            elif isinstance(n.ctx, ast.Del):
                kind = "del"
            else:
                kind = "read"
            out.append(KeyUse(kind, key, n, func, norm(n.value)))
        elif isinstance(n, ast.Compare) and len(n.ops) == 1 \
                and isinstance(n.ops[0], (ast.In, ast.NotIn)) \
                and is_fp_receiver(n.comparators[0], al, infp):
            out.append(KeyUse("in", const_str(n.left), n, func,
                              norm(n.comparators[0])))
        elif isinstance(n, ast.Call) and isinstance(n.func, ast.Attribute) \
                and is_fp_receiver(n.func.value, al, infp):
            meth = n.func.attr
            recv = norm(n.func.value)
            if meth == "get" and n.args:
                out.append(KeyUse("get", const_str(n.args[0]), n, func, recv))
            elif meth == "pop" and n.args:
                out.append(KeyUse("pop", const_str(n.args[0]), n, func, recv))
            elif meth == "setdefault" and n.args:
                out.append(KeyUse("write", const_str(n.args[0]), n, func,
                                  recv))
            elif meth in ("update", "restore"):
                keys = None
                if n.args and isinstance(n.args[0], ast.Dict):
                    keys = [const_str(k) for k in n.args[0].keys]
                if keys is None:
                    out.append(KeyUse("update", None, n, func, recv))
                else:
                    for k in keys:
                        out.append(KeyUse("update", k, n, func, recv))
                for kw in n.keywords:
                    out.append(KeyUse("update", kw.arg, n, func, recv))
    return out


# --- decorator registries ----------------------------------------------------

def decorated(repo: Repo, modname: str, decorator: str):
    """[(func, {kw: literal})] for functions decorated `@decorator(...)`."""
    m = repo.mod(modname)
    out = []
    for q, f in m.funcs.items():
        for d in f.decorator_list:
            if isinstance(d, ast.Call) and dotted(d.func) == decorator:
                kws = {kw.arg: literal(kw.value) for kw in d.keywords
                       if kw.arg}
                out.append((f, kws, d))
    return out


def preprocessing_steps(repo: Repo):
    steps = decorated(repo, "preproc", "preprocessing_step")
    if not steps:
        raise AnchorError("no @preprocessing_step functions in preproc.py")
    return steps


def poc_methods(repo: Repo):
    ms = decorated(repo, "poc", "poc")
    if not ms:
        raise AnchorError("no @poc functions in poc.py")
    return ms


def model_modules(repo: Repo) -> list:
    """Shipped model modules: model.model_* that define model_func."""
    out = []
    for name, m in sorted(repo.modules.items()):
        if name.startswith("model.model_") and "model_func" in m.assigns:
            out.append(m)
    if not out:
        raise AnchorError("no shipped model modules found")
    return out


def model_func(mod):
    v = mod.assign("model_func")
    if not isinstance(v, ast.Name) or v.id not in mod.funcs:
        raise Undecided(f"{mod.relpath}: model_func is not a plain function "
                        "name")
    return mod.funcs[v.id]


def module_list(mod, name) -> list:
    v = literal(mod.assign(name))
    if not isinstance(v, list):
        raise Undecided(f"{mod.relpath}: {name} is not a literal list")
    return v
